"""Generic per-property runner: Verus units, Kani units, syntactic scans, known findings, evidence, self-test."""
import importlib.util
import json
import os
import re
import shutil
import sys
import time

from vf import *  # noqa
import vf


def load_registry(prop):
    p = os.path.join(VERIF, "contracts", prop, "registry.py")
    if not os.path.exists(p):
        raise Undecided("no registry for %s" % prop)
    spec = importlib.util.spec_from_file_location("registry_" + prop, p)
    m = importlib.util.module_from_spec(spec)
    spec.loader.exec_module(m)
    return m


def tier_ok(item_tier, tier):
    return item_tier == "quick" or tier == "thorough"


class Run:
    def __init__(self, prop, tier, seed, repo=None, quiet=False, tag=None):
        self.prop = prop
        self.tier = tier
        self.seed = seed
        self.repo = repo or vf.REPO
        self.reg = load_registry(prop)
        self.obs = []
        self.cmds = []
        self.functions = []
        self.undecided = []
        self.violations = []   # (obligation, replay path, suffix)
        self.known_lines = []
        self.quiet = quiet
        self.tag = (tag or prop) + os.environ.get("VERIF_TAG", "")
        self.kf = load_known_findings()
        self.kani_replays = {}  # harness ob name -> replay path

    def say(self, *a):
        if not self.quiet:
            log(*a)

    # ---------------------------------------------------------------- Verus
    def run_verus_units(self):
        units = getattr(self.reg, "VERUS_UNITS", [])
        if not units:
            return
        vdir = os.path.join(SCRATCH_ROOT, self.tag + "-verus")
        shutil.rmtree(vdir, ignore_errors=True)
        os.makedirs(vdir, exist_ok=True)
        try:
            for u in units:
                if not tier_ok(u.get("tier", "quick"), self.tier):
                    continue
                self._run_verus_unit(u, vdir)
        finally:
            shutil.rmtree(vdir, ignore_errors=True)

    def _run_verus_unit(self, u, vdir):
        tpl = os.path.join(VERIF, "contracts", self.prop, u["template"])
        obs = []
        for od in u["obligations"]:
            o = Obligation(od["name"], "verus", "complete", None, od.get("functions", []), od.get("desc", ""), od.get("twin"))
            o.vfn = od["vfn"]
            o.known = od.get("known")
            o.soft = od.get("soft", False)
            obs.append(o)
            self.obs.append(o)
            self.functions += od.get("functions", [])
        try:
            text_, blocks = build_verus_unit(tpl, self.repo)
        except Undecided as ex:
            for o in obs:
                o.status = "undecided"
                o.detail = str(ex)
            self.undecided.append("%s: %s" % (u["name"], ex))
            return
        lost = {b.opts.get("vfn", b.key): b.lost for b in blocks if getattr(b, "lost", None)}
        crate = "vu_" + re.sub(r"\W", "_", self.prop.lower() + "_" + u["name"])
        path = os.path.join(vdir, crate + ".rs")
        open(path, "w").write(text_)
        seeds = [None]
        if self.tier == "thorough":
            seeds.append(self.seed if self.seed else 7)
        results = []
        for sd in seeds:
            r = run_verus(path, seed=sd, timeout=u.get("timeout", 600))
            results.append(r)
            self.cmds.append("(cd <scratch> && %s)" % r["cmd"])
        r = results[0]
        self.say("  verus unit %s: %s in %.1fs" % (u["name"], r.get("summary", r.get("tool_error")), r["wall_s"]))
        if r.get("tool_error"):
            for o in obs:
                o.status = "undecided"
                o.detail = r["tool_error"][-600:]
            self.undecided.append("verus unit %s: %s" % (u["name"], r["tool_error"][-800:]))
            return
        # non-verification errors (type errors, unsupported constructs) => undecided
        hard = [e for e in r["errors"] if not VERUS_FAIL_PAT.match("error: " + e["msg"]) and not e["msg"].startswith("verification results")]
        if hard and not r["functions"]:
            for o in obs:
                o.status = "undecided"
                o.detail = hard[0]["text"][-600:]
            self.undecided.append("verus unit %s: front-end error: %s" % (u["name"], hard[0]["text"][-800:]))
            return
        seen = set()
        for o in obs:
            if o.vfn in lost:
                o.status = "undecided"
                o.detail = lost[o.vfn]
                self.undecided.append("%s: %s" % (o.name, o.detail))
                continue
            hits = [(fn, fr) for fn, fr in r["functions"].items() if fn == o.vfn or fn.endswith("::" + o.vfn)]
            if not hits:
                o.status = "undecided"
                o.detail = "verus reported no result for function `%s` (vacuity guard)" % o.vfn
                self.undecided.append("%s: %s" % (o.name, o.detail))
                continue
            fn, fr = hits[0]
            seen.add(fn)
            o.time_s = fr["time_s"]
            if fr["success"]:
                o.status = "discharged"
                # stability pass
                for r2 in results[1:]:
                    f2 = r2["functions"].get(fn)
                    if f2 is None or not f2["success"]:
                        o.status = "undecided"
                        o.detail = "unstable: fails under a different z3 random seed"
                        self.undecided.append("%s: %s" % (o.name, o.detail))
            else:
                msgs = self._verus_msgs_for(r, blocks, o, text_)
                o.detail = msgs
                if r.get("rlimit") and "rlimit" in msgs.lower():
                    o.status = "undecided"
                    self.undecided.append("%s: resource limit exceeded" % o.name)
                else:
                    o.status = "failed"
        # unregistered failing functions
        for fn, fr in r["functions"].items():
            if fn not in seen and not fr["success"]:
                o = Obligation("%s.V.%s.unregistered.%s" % (self.prop, u["name"], fn.split("::")[-1]), "verus", "complete")
                o.status = "failed"
                o.detail = "function %s of the unit fails: %s" % (fn, "\n".join(e["text"] for e in r["errors"])[:600])
                o.vfn = fn
                o.known = None
                self.obs.append(o)
        # alternative lawful specifications: if obligations fail against the primary spec, the unit is re-rendered with each
        # registered variant (textual substitutions in the template's hand-written spec part); if a variant verifies every
        # registered function, the code implements that other lawful spec and the obligations are discharged under it
        failed_now = [o for o in obs if o.status == "failed" and not getattr(o, "known", None)]
        if failed_now and u.get("variants"):
            for var in u["variants"]:
                vt = text_
                okv = True
                for (a, b) in var["subst"]:
                    if a not in vt:
                        okv = False
                    vt = vt.replace(a, b)
                if not okv:
                    continue
                vpath = os.path.join(vdir, crate + "_" + re.sub(r"\W", "_", var["name"]) + ".rs")
                open(vpath, "w").write(vt)
                rv = run_verus(vpath, timeout=u.get("timeout", 600))
                self.cmds.append("(cd <scratch> && %s)   # variant %s" % (rv["cmd"], var["name"]))
                if rv.get("tool_error"):
                    continue
                all_ok = True
                for o in obs:
                    hits = [fr for fn, fr in rv["functions"].items() if fn == o.vfn or fn.endswith("::" + o.vfn)]
                    if not hits or not hits[0]["success"]:
                        if not getattr(o, "known", None):
                            all_ok = False
                if all_ok:
                    for o in failed_now:
                        o.status = "discharged"
                        o.detail = "verified against the alternative lawful specification `%s` (%s)" % (var["name"], var.get("desc", ""))
                    self.say("  verus unit %s: verified under alternative specification %s" % (u["name"], var["name"]))
                    break
        self._verus_text = getattr(self, "_verus_text", {})
        self._verus_text[u["name"]] = (text_, r)

    def _verus_msgs_for(self, r, blocks, o, text_):
        out = []
        lines = text_.split("\n")
        # locate the fn in the generated text to attribute diagnostics
        short = o.vfn.split("::")[-1]
        for e in r["errors"]:
            ln = e.get("line")
            if ln is None:
                continue
            # walk backwards to the enclosing `fn`
            j = min(ln, len(lines)) - 1
            while j >= 0 and not re.search(r"\bfn\s+\w+", lines[j]):
                j -= 1
            if j >= 0 and re.search(r"\bfn\s+%s\b" % re.escape(short), lines[j]):
                out.append(e["text"])
        if not out:
            out = [e["text"] for e in r["errors"]][:3]
        return "\n".join(out)[:3000]

    # ---------------------------------------------------------------- Kani
    def run_kani_units(self):
        from concurrent.futures import ThreadPoolExecutor
        todo = []
        for u in getattr(self.reg, "KANI_UNITS", []):
            hs = [h for h in u["harnesses"] if tier_ok(h.get("tier", "quick"), self.tier)]
            if hs:
                todo.append((u, hs))
        if not todo:
            return
        # concurrent runs of the same property share the dependency cache: hold a shared lock while using it and
        # prune first-party build output only when no other run holds it
        import fcntl
        os.makedirs(CACHE_ROOT, exist_ok=True)
        lockf = open(os.path.join(CACHE_ROOT, self.prop + ".lock"), "w")
        fcntl.flock(lockf, fcntl.LOCK_SH)
        try:
            with ThreadPoolExecutor(max_workers=min(4, len(todo))) as ex:
                futs = [ex.submit(self._run_kani_unit, u, hs) for (u, hs) in todo]
                for f in futs:
                    f.result()
        finally:
            fcntl.flock(lockf, fcntl.LOCK_UN)
            try:
                fcntl.flock(lockf, fcntl.LOCK_EX | fcntl.LOCK_NB)
                prune_first_party(os.path.join(CACHE_ROOT, self.prop))
                fcntl.flock(lockf, fcntl.LOCK_UN)
            except OSError:
                pass
            lockf.close()

    def _prepare_ws(self, sc, u):
        injections = []
        for inj in u["injections"]:
            d = dict(inj)
            if "module_file" in inj:
                d["module"] = open(os.path.join(VERIF, "contracts", self.prop, inj["module_file"])).read()
            if "module_fn" in inj:
                d["module"] = inj["module_fn"](sc.ws)
            injections.append(d)
        inject(sc.ws, injections)
        for extra in u.get("prepare", []):
            extra(sc.ws)

    def _run_kani_unit(self, u, hs):
        obs = {}
        for h in hs:
            o = Obligation(h["ob"], "kani", h.get("kind", "complete"), h.get("bound"), h.get("functions", []), h.get("desc", ""))
            o.helper_for = h.get("helper_for")
            o.harness = u["modpath"] + "::" + h["name"] if "::" not in h["name"] else h["name"]
            o.hfile = h.get("file")
            o.known = h.get("known")
            obs[o.harness] = o
            self.obs.append(o)
            self.functions += h.get("functions", [])
        with Scratch(self.tag + "-" + u["name"], self.repo) as sc:
            try:
                self._prepare_ws(sc, u)
            except Undecided as ex:
                for o in obs.values():
                    o.status = "undecided"
                    o.detail = str(ex)
                self.undecided.append("%s: %s" % (u["name"], ex))
                return
            # group by timeout class so that cheap and expensive harnesses share one build
            names = list(obs.keys())
            ht = max(h.get("timeout", 300) for h in hs)
            res, out, cmd, rc, to, wall = run_kani(self.prop, sc.ws, u["crate"], names, timeout=u.get("timeout", 3000),
                                                    harness_timeout=ht, jobs=u.get("jobs"))
            self.cmds.append("(cd <scratch copy of /repo> && CARGO_TARGET_DIR=<cache> %s)" % cmd)
            os.makedirs(os.path.join(VERIF, "logs"), exist_ok=True)
            open(os.path.join(VERIF, "logs", "%s-%s.kani.log" % (self.tag, u["name"])), "w").write(out)
            self.say("  kani unit %s: %d harnesses, %.1fs wall, rc=%d" % (u["name"], len(names), wall, rc))
            if not res:
                msg = "kani produced no harness results (build failure or timeout): " + tail_errors(out)
                for o in obs.values():
                    o.status = "undecided"
                    o.detail = msg[-800:]
                self.undecided.append("%s: %s" % (u["name"], msg[-1500:]))
                return
            failed = []
            for hname, o in obs.items():
                r = res.get(hname)
                if r is None:
                    o.status = "undecided"
                    o.detail = "harness not reported by kani (vacuity guard)"
                    self.undecided.append("%s: %s" % (o.name, o.detail))
                    continue
                o.time_s = r["time_s"] or 0.0
                o.checks = r["checks"]
                verdict, why = classify_kani(r)
                if verdict == "ok":
                    o.status = "discharged"
                elif verdict == "undecided":
                    o.status = "undecided"
                    o.detail = why + "\n" + r["raw"][-600:]
                    self.undecided.append("%s: %s" % (o.name, why))
                else:
                    o.status = "failed"
                    o.detail = why
                    o.kani_raw = r["raw"]
                    failed.append(o)
            # counterexamples for failures: concrete playback + native replay on this scratch copy
            if failed and not getattr(self, "no_cex", False):
                self._kani_counterexamples(sc, u, failed)

    def _kani_counterexamples(self, sc, u, failed):
        from concurrent.futures import ThreadPoolExecutor
        for o in failed:
            self.say("  obligation %s FAILED in kani: %s" % (o.name, o.detail[:200]))
        dfile = u.get("playback_file") or u["injections"][-1]["file"]

        def get(o):
            return o, kani_playback_source(self.prop, sc.ws, u["crate"], o.harness, timeout=u.get("playback_timeout", 1500))
        with ThreadPoolExecutor(max_workers=min(8, len(failed))) as ex:
            got = list(ex.map(get, failed))
        by_file = {}
        for o, (srcs, pout) in got:
            hfile = getattr(o, "hfile", None) or dfile
            o.replay_payload = {"engine": "kani", "harness": o.harness, "crate": u["crate"], "unit": u["name"],
                                "failed_checks": o.detail, "verifier_output": getattr(o, "kani_raw", "")[-4000:],
                                "harness_file": hfile}
            o.reproduced = None
            o.has_input = bool(srcs)
            if srcs:
                o.replay_payload["playback_tests"] = srcs
                o.replay_payload["inputs"] = [decode_playback(t) for t in srcs]
                by_file.setdefault(hfile, []).extend(srcs)
        for hfile, tests in by_file.items():
            add_playback_tests(sc.ws, hfile, tests)
        if by_file:
            for o, (srcs, pout) in got:
                outs = []
                for t in srcs or []:
                    rep, rout = run_playback_test(self.prop, sc.ws, u["crate"], t)
                    outs.append({"test": playback_name(t), "reproduced": rep, "output": rout[-2500:]})
                    if rep:
                        o.reproduced = True
                        o.replay_payload["playback_test"] = t
                        break
                if srcs and o.reproduced is None:
                    # reproduced stays None when the native replay could not be executed at all (build error,
                    # timeout); False only when every generated test ran and passed
                    if all(x["reproduced"] is False for x in outs):
                        o.reproduced = False
                    o.replay_payload["playback_test"] = srcs[0]
                o.replay_payload["native_replay"] = outs

    # ---------------------------------------------------------------- scans
    def run_scans(self):
        for sdef in getattr(self.reg, "SCANS", []):
            if not tier_ok(sdef.get("tier", "quick"), self.tier):
                continue
            o = Obligation(sdef["name"], "scan", "complete", None, sdef.get("functions", []), sdef.get("desc", ""))
            o.known = None
            self.obs.append(o)
            t0 = time.time()
            try:
                res = sdef["fn"](self.repo)
                ok, detail = res[0], res[1]
                decisive = len(res) > 2 and res[2]
                if ok:
                    o.status = "discharged"
                elif decisive:
                    o.status = "failed"
                else:
                    # a syntactic scan is a frame heuristic: what it does not recognise needs attention, it is not a violation
                    o.status = "undecided"
                    self.undecided.append("%s: %s" % (o.name, detail[:300]))
                o.detail = detail
            except Undecided as ex:
                o.status = "undecided"
                o.detail = str(ex)
                self.undecided.append("%s: %s" % (o.name, ex))
            o.time_s = time.time() - t0

    # ---------------------------------------------------------------- verdict
    def settle(self):
        """Apply known findings, write replay files, produce VIOLATION lines."""
        findings = [f for f in self.kf.get("findings", []) if f["property"] == self.prop]
        kani_failed = {o.name: o for o in self.obs if o.engine == "kani" and o.status == "failed"}
        for o in self.obs:
            if o.status != "failed":
                continue
            # known finding?
            kf = None
            for f in findings:
                if f["obligation"] == o.name and self._finding_matches(f, o):
                    kf = f
            if kf is not None:
                o.status = "known"
                self.known_lines.append("KNOWN-FINDING: property=%s %s" % (self.prop, kf["what"]))
                continue
            if o.engine == "kani" and getattr(o, "helper_for", None):
                # a contract on a private helper that is stronger than the property needs (derived from the current call
                # sites): unless a property-level obligation it serves fails on this tree as well, the failure is
                # undecided (the helper's domain may have been narrowed harmlessly), not a violation
                by_name = {x.name: x for x in self.obs}
                if not any(t in by_name and by_name[t].status == "failed" for t in o.helper_for):
                    o.status = "undecided"
                    o.detail = "helper contract fails, but none of the property-level obligations %s fails on this tree: %s" % (
                        ", ".join(o.helper_for), (o.detail or "")[:400])
                    self.undecided.append("%s: %s" % (o.name, o.detail[:300]))
                    continue
            if o.engine == "kani":
                payload = getattr(o, "replay_payload", {"engine": "kani", "failed_checks": o.detail})
                if getattr(o, "has_input", False) and getattr(o, "reproduced", None) is False:
                    # the verifier produced a counterexample, but executing the same harness natively on the
                    # real code with exactly those inputs does not fail: a spurious counterexample (verifier
                    # imprecision), not a violation
                    o.status = "undecided"
                    path = write_replay(self.prop, o.name + ".spurious", payload)
                    o.detail = "counterexample does not replay on the real code (spurious; see %s): %s" % (path, o.detail)
                    self.undecided.append("%s: %s" % (o.name, o.detail[:400]))
                    continue
                path = write_replay(self.prop, o.name, payload)
                suffix = "" if getattr(o, "reproduced", None) else " no-failing-input-found"
                self.kani_replays[o.name] = path
                self.violations.append((o, path, suffix))
            elif o.engine == "verus":
                # A failed Verus proof is not by itself a counterexample. If the same statement is discharged on this very
                # tree by *complete* Kani twins (loop-free, full input domain), the property holds for that function and the
                # Verus failure is a lost proof (e.g. a construct without a vstd specification): undecided, not a violation.
                twins = [t for t in (o.twin or [])]
                by_name = {x.name: x for x in self.obs}
                # `soft` obligations pin one of many admissible implementations as a proof device (e.g. the exact hash layout
                # behind "equal values hash equally"); for them a discharged twin that checks the law itself suffices, even bounded
                if twins and all(t in by_name and by_name[t].engine == "kani" and (by_name[t].kind == "complete" or getattr(o, "soft", False))
                                 and by_name[t].status == "discharged" for t in twins):
                    o.status = "undecided"
                    o.detail = "Verus proof lost, but the complete Kani twin(s) %s discharge the same statement on this tree: %s" % (
                        ", ".join(twins), (o.detail or "")[:600])
                    self.undecided.append("%s: %s" % (o.name, o.detail[:300]))
                    continue
                twin_paths = []
                for t in (o.twin or []):
                    if t in kani_failed:
                        twin_paths.append(t)
                payload = {"engine": "verus", "function": getattr(o, "vfn", ""), "verifier_output": o.detail,
                           "kani_twins": o.twin or [], "kani_twins_failed": twin_paths}
                o._twin_failed = twin_paths
                path = write_replay(self.prop, o.name, payload)
                self.violations.append((o, path, None))
            else:
                payload = {"engine": "scan", "detail": o.detail}
                path = write_replay(self.prop, o.name, payload)
                self.violations.append((o, path, " no-failing-input-found"))
        # verus suffixes: point at the twin's replay if the twin reproduced natively
        fixed = []
        for (o, path, suffix) in self.violations:
            if suffix is None:
                tw = [t for t in getattr(o, "_twin_failed", []) if getattr(kani_failed[t], "reproduced", None)]
                if tw:
                    d = json.load(open(path))
                    d["failing_input_replay"] = self.kani_replays.get(tw[0])
                    json.dump(d, open(path, "w"), indent=1)
                    suffix = ""
                else:
                    suffix = " no-failing-input-found"
            fixed.append((o, path, suffix))
        self.violations = fixed

    def _finding_matches(self, f, o):
        sig = f.get("signature")
        if not sig:
            return True
        return re.search(sig, o.detail or "", re.S) is not None

    def finish(self, t0):
        wall = time.time() - t0
        ev = write_evidence(self.prop, self.tier, self.seed, self.obs, wall, sorted(set(self.cmds)),
                            getattr(self.reg, "TRUSTED", []), getattr(self.reg, "ASSUMPTIONS", []),
                            self.functions, len(self.violations),
                            partial=getattr(self, "partial", False),
                            extra={"undecided": self.undecided, "selftest": getattr(self, "selftest", None),
                                   "not_decided": getattr(self.reg, "NOT_DECIDED", [])})
        for ln in self.known_lines:
            log(ln)
        if self.violations:
            for (o, path, suffix) in self.violations:
                log("FAILED OBLIGATION %s [%s]: %s" % (o.name, o.engine, (o.detail or "").strip().split("\n")[0][:300]))
                log("VIOLATION property=%s replay=%s%s" % (self.prop, path, suffix))
            return 1
        if self.undecided:
            log("UNDECIDED property=%s (%d obligations could not be decided; this is not a violation)" % (self.prop, len(self.undecided)))
            for u in self.undecided[:20]:
                log("  - " + u[:1500])
            return 2
        c = ev["coverage"]
        log("OK property=%s tier=%s obligations=%d discharged=%d (verus %d, kani %d) bounded=%d wall=%.1fs" % (
            self.prop, self.tier, c["obligations"], c["discharged"], c["by_backend"]["verus"]["discharged"],
            c["by_backend"]["kani"]["discharged"], len(c["bounded_not_counted_as_proved"]), wall))
        # bounded obligations must also have passed
        return 0

    def run_all(self):
        self.run_verus_units()
        self.run_kani_units()
        self.run_scans()
        self.settle()


def tail_errors(out):
    errs = re.findall(r"(?ms)^error.*?(?=^\S|\Z)", out)
    if errs:
        return "\n".join(errs)[-2500:]
    return out[-1500:]


# ---------------------------------------------------------------------------------------------- self-test

def run_selftest(prop, seed):
    """Apply each registered mutant to a scratch copy of /repo and require its named obligation to fail.
    Never produces a VIOLATION; a surviving mutant => the machinery is vacuous => exit 2."""
    reg = load_registry(prop)
    results = []
    ok = True
    for mu in getattr(reg, "MUTANTS", []):
        mdir = os.path.join(SCRATCH_ROOT, prop + "-mutant-src")
        shutil.rmtree(mdir, ignore_errors=True)
        os.makedirs(mdir)
        try:
            sh(["rsync", "-a", "--exclude", "/target", "--exclude", ".git", vf.REPO.rstrip("/") + "/", mdir + "/"], timeout=300)
            p = os.path.join(mdir, mu["file"])
            s = open(p).read()
            if s.count(mu["from"]) < 1:
                results.append({"mutant": mu["name"], "status": "skipped", "why": "pattern no longer present"})
                continue
            s = s.replace(mu["from"], mu["to"], 1)
            open(p, "w").write(s)
            run = Run(prop, "quick", seed, repo=mdir, quiet=True, tag=prop + "-mut")
            run.no_cex = True
            only = set(mu["expect"])
            # restrict to the units that contain the expected obligations (speed)
            run.reg = restrict_registry(run.reg, only)
            run.run_all()
            failed = {o.name for o in run.obs if o.status in ("failed", "known")}
            hit = sorted(failed & only)
            results.append({"mutant": mu["name"], "status": "killed" if hit else "survived", "failed": sorted(failed),
                            "expected": sorted(only)})
            if not hit:
                ok = False
            # replays written by the mutant run are not real: remove them
            for (o, path, _) in run.violations:
                try:
                    os.remove(path)
                except OSError:
                    pass
        finally:
            shutil.rmtree(mdir, ignore_errors=True)
    return ok, results


def run_benign(prop, seed):
    """Apply each registered harmless edit to a scratch copy of /repo and require that no violation is reported
    (exit 0; exit 2 only for a legitimately lost anchor). A violation here is a false alarm of the machinery."""
    reg = load_registry(prop)
    results = []
    ok = True
    for mu in getattr(reg, "BENIGN", []):
        mdir = os.path.join(SCRATCH_ROOT, prop + "-benign-src")
        shutil.rmtree(mdir, ignore_errors=True)
        os.makedirs(mdir)
        try:
            sh(["rsync", "-a", "--exclude", "/target", "--exclude", ".git", vf.REPO.rstrip("/") + "/", mdir + "/"], timeout=300)
            p = os.path.join(mdir, mu["file"])
            s = open(p).read()
            if s.count(mu["from"]) < 1:
                results.append({"edit": mu["name"], "status": "skipped", "why": "pattern no longer present"})
                continue
            open(p, "w").write(s.replace(mu["from"], mu["to"], 1))
            run = Run(prop, "quick", seed, repo=mdir, quiet=True, tag=prop + "-benign")
            run.no_cex = True
            run.run_all()
            for (o, path, _) in run.violations:
                try:
                    os.remove(path)
                except OSError:
                    pass
            st = "false-alarm" if run.violations else ("undecided" if run.undecided else "quiet")
            results.append({"edit": mu["name"], "status": st, "failed": [o.name for (o, _, _) in run.violations], "undecided": [u[:200] for u in run.undecided[:4]]})
            if run.violations:
                ok = False
        finally:
            shutil.rmtree(mdir, ignore_errors=True)
    return ok, results


def restrict_registry(reg, ob_names):
    class R:
        pass
    r = R()
    for k in dir(reg):
        if not k.startswith("__"):
            setattr(r, k, getattr(reg, k))
    vu = []
    for u in getattr(reg, "VERUS_UNITS", []):
        if any(o["name"] in ob_names for o in u["obligations"]):
            vu.append(u)
    r.VERUS_UNITS = vu
    ku = []
    for u in getattr(reg, "KANI_UNITS", []):
        hs = [h for h in u["harnesses"] if h["ob"] in ob_names]
        if hs:
            d = dict(u)
            d["harnesses"] = hs
            ku.append(d)
    r.KANI_UNITS = ku
    r.SCANS = [s for s in getattr(reg, "SCANS", []) if s["name"] in ob_names]
    return r


# ---------------------------------------------------------------------------------------------- replay

def replay(prop, path):
    """Re-run a recorded failing input against the current tree. exit 1 if it still fails, 0 if not, 2 undecided."""
    d = json.load(open(path))
    if d.get("engine") == "verus" and d.get("failing_input_replay"):
        return replay(prop, d["failing_input_replay"])
    if d.get("engine") != "kani" or "playback_test" not in d:
        log("replay file carries no executable input (obligation %s): re-running the obligation instead" % d.get("obligation"))
        run = Run(prop, "quick", 0)
        run.reg = restrict_registry(run.reg, {d["obligation"]})
        run.run_all()
        bad = [o for o in run.obs if o.status == "failed"]
        for (o, p2, _) in run.violations:
            if p2 != path:
                try:
                    os.remove(p2)
                except OSError:
                    pass
        if bad:
            log("REPLAY: obligation %s still fails on the current tree" % d["obligation"])
            return 1
        log("REPLAY: obligation %s is discharged on the current tree" % d["obligation"])
        return 0 if not run.undecided else 2
    reg = load_registry(prop)
    unit = [u for u in getattr(reg, "KANI_UNITS", []) if u["name"] == d["unit"]]
    if not unit:
        log("replay: unit %s no longer registered" % d["unit"])
        return 2
    u = unit[0]
    run = Run(prop, "quick", 0)
    with Scratch(prop + "-replay") as sc:
        run._prepare_ws(sc, u)
        add_playback_tests(sc.ws, d["harness_file"], [d["playback_test"]])
        rep, out = run_playback_test(prop, sc.ws, u["crate"], d["playback_test"])
    prune_first_party(os.path.join(CACHE_ROOT, prop))
    log(out[-1500:])
    if rep is True:
        log("REPLAY: recorded input still violates obligation %s on the current tree" % d["obligation"])
        return 1
    if rep is False:
        log("REPLAY: recorded input no longer fails")
        return 0
    return 2


def main(argv):
    import argparse
    ap = argparse.ArgumentParser()
    ap.add_argument("prop")
    ap.add_argument("--tier", default=os.environ.get("VERIF_TIER", "quick"), choices=["quick", "thorough"])
    ap.add_argument("--replay")
    ap.add_argument("--selftest", action="store_true")
    ap.add_argument("--benign", action="store_true", help="apply the registered harmless edits; none may raise a violation")
    ap.add_argument("--only", help="comma-separated obligation names (debugging; evidence is still written)")
    a = ap.parse_args(argv)
    seed = int(os.environ.get("VERIF_SEED", "0") or 0)
    t0 = time.time()
    try:
        if a.replay:
            return replay(a.prop, a.replay)
        if a.benign:
            ok, res = run_benign(a.prop, seed)
            log(json.dumps(res, indent=1))
            return 0 if ok else 1
        if a.selftest:
            ok, res = run_selftest(a.prop, seed)
            log(json.dumps(res, indent=1))
            return 0 if ok else 2
        run = Run(a.prop, a.tier, seed)
        if a.only:
            run.reg = restrict_registry(run.reg, set(a.only.split(",")))
            run.partial = True
        run.run_all()
        if a.tier == "thorough" and not run.violations and not a.only:
            ok, res = run_selftest(a.prop, seed)
            run.selftest = res
            if not ok:
                run.undecided.append("mutation self-test: a registered mutant survived: " +
                                     ", ".join(r["mutant"] for r in res if r["status"] == "survived"))
        return run.finish(t0)
    except Undecided as ex:
        log("UNDECIDED property=%s: %s" % (a.prop, ex))
        return 2


if __name__ == "__main__":
    sys.exit(main(sys.argv[1:]))
