"""Driver library for contract-based deductive verification of /repo (Verus + Kani).

Exit-code discipline (DESIGN §3.1/§6):
  0  every registered obligation discharged (known findings printed, not counted)
  1  a registered obligation failed on the real code  -> "VIOLATION property=<id> replay=<path>[ no-failing-input-found]"
  2  undecided: lost anchor, unsupported construct, tool crash, timeout, vacuity guard. Never a VIOLATION line.
"""
import fcntl
import hashlib
import json
import os
import re
import shutil
import subprocess
import sys
import time

VERIF = os.path.dirname(os.path.dirname(os.path.abspath(__file__)))
REPO = os.environ.get("VERIF_REPO", "/repo")
SCRATCH_ROOT = os.environ.get("VERIF_SCRATCH", "/var/tmp/conjure-verif")
CACHE_ROOT = os.environ.get("VERIF_CACHE", "/var/tmp/conjure-verif-cache")
VX = os.path.join(VERIF, "vx", "target", "release", "vx")
NCPU = os.cpu_count() or 4


class Undecided(Exception):
    """The machinery could not decide (exit 2)."""


def log(*a):
    print(*a, flush=True)


def sh(cmd, cwd=None, env=None, timeout=None, stdin=None):
    e = dict(os.environ)
    e["CARGO_NET_OFFLINE"] = "true"
    if env:
        e.update(env)
    t0 = time.time()
    try:
        p = subprocess.run(cmd, cwd=cwd, env=e, timeout=timeout, input=stdin,
                           stdout=subprocess.PIPE, stderr=subprocess.STDOUT, text=True, errors="replace",
                           start_new_session=True)
        return p.returncode, p.stdout, False, time.time() - t0
    except subprocess.TimeoutExpired as ex:
        out = ex.stdout or ""
        if isinstance(out, bytes):
            out = out.decode("utf-8", "replace")
        # kill the whole process group
        return 124, out, True, time.time() - t0


def sh2(cmd, cwd=None, env=None, timeout=None):
    """like sh but keeps stdout and stderr apart"""
    e = dict(os.environ)
    e["CARGO_NET_OFFLINE"] = "true"
    if env:
        e.update(env)
    t0 = time.time()
    try:
        p = subprocess.run(cmd, cwd=cwd, env=e, timeout=timeout, stdout=subprocess.PIPE, stderr=subprocess.PIPE,
                           text=True, errors="replace")
        return p.returncode, p.stdout, p.stderr, False, time.time() - t0
    except subprocess.TimeoutExpired as ex:
        return 124, (ex.stdout or b"").decode("utf-8", "replace") if isinstance(ex.stdout, bytes) else (ex.stdout or ""), \
            (ex.stderr or b"").decode("utf-8", "replace") if isinstance(ex.stderr, bytes) else (ex.stderr or ""), True, time.time() - t0


# ----------------------------------------------------------------------------------------------
# vx: item location
# ----------------------------------------------------------------------------------------------

def ensure_vx():
    if not os.path.exists(VX):
        rc, out, _, _ = sh(["cargo", "build", "--release", "--offline"], cwd=os.path.join(VERIF, "vx"), timeout=900)
        if rc != 0:
            raise Undecided("cannot build vx extractor:\n" + out[-2000:])


_vx_cache = {}


def vx(path, ctors=()):
    ensure_vx()
    key = (path, tuple(ctors), os.path.getmtime(path) if os.path.exists(path) else 0)
    if key in _vx_cache:
        return _vx_cache[key]
    if not os.path.exists(path):
        raise Undecided("lost anchor: file %s does not exist" % path)
    cmd = [VX, path]
    for c in ctors:
        cmd += ["--ctor", c]
    rc, out, err, _, _ = sh2(cmd, timeout=60)
    if rc != 0:
        raise Undecided("vx failed on %s: %s" % (path, err.strip()))
    doc = json.loads(out)
    if not doc["ascii"]:
        # proc-macro2 byte_range is byte-accurate for UTF-8, but be explicit about it
        pass
    doc["src"] = open(path, encoding="utf-8").read()
    doc["bytes"] = doc["src"].encode("utf-8")
    _vx_cache[key] = doc
    return doc


def find_item(doc, key, kind=None, nth=0):
    hits = [it for it in doc["items"] if it["key"] == key and (kind is None or it["kind"] == kind)]
    if len(hits) <= nth:
        raise Undecided("lost anchor: item `%s` not found in %s" % (key, doc["file"]))
    return hits[nth]


def text(doc, a, b):
    return doc["bytes"][a:b].decode("utf-8")


# ----------------------------------------------------------------------------------------------
# Verus units: template + byte-for-byte extracted items
# ----------------------------------------------------------------------------------------------

DROP_LIST = [
    "outer attributes and doc comments of extracted items (#[inline], #[derive], serde/educe attributes)",
    "`debug_assert*!` statements",
    "return type `T` rewritten to `(r: T)` so that the contract can name the result",
    "closure parameter `|_|` renamed to `|_e|`",
    "`for x in e` rewritten to `for x in it: e` where a template says so (names Verus's ghost iterator; no executable effect)",
    "inserted text is ghost only: requires/ensures/invariant/decreases clauses and proof { } blocks",
    "`Self` in extracted signatures is kept; items not listed in the template are not part of the unit",
]


class VerusBlock:
    def __init__(self, key, opts):
        self.key = key
        self.opts = opts
        self.spec = ""
        self.pre = ""
        self.loops = {}
        self.loopbody = {}
        self.loopend = {}
        self.post = ""
        self.tail = ""
        self.subst = []
        self.line_start = None
        self.line_end = None
        self.file = None


def _ret_span(doc, it):
    """byte span of the return type in the signature (after `->`), or None"""
    sig = text(doc, it["sig_start"], it["sig_end"])
    depth = 0
    i = 0
    arrow = None
    while i < len(sig) - 1:
        c = sig[i]
        if c in "(<[":
            depth += 1
        elif c in ")]":
            depth -= 1
        elif c == ">" and sig[i - 1] != "-":
            depth -= 1
        if sig[i:i + 2] == "->" and depth == 0:
            arrow = i
            break
        i += 1
    if arrow is None:
        return None
    # return type runs to ` where` at depth 0 or the end of the signature
    rest = sig[arrow + 2:]
    m = re.search(r"\n?\s*\bwhere\b", rest)
    end = arrow + 2 + (m.start() if m else len(rest))
    # trim whitespace
    s = arrow + 2
    while sig[s].isspace():
        s += 1
    while sig[end - 1].isspace():
        end -= 1
    bs = len(sig[:s].encode("utf-8"))
    be = len(sig[:end].encode("utf-8"))
    return it["sig_start"] + bs, it["sig_start"] + be


def render_fn(doc, it, blk):
    """Extract the function text byte-for-byte and insert the contract pieces."""
    if "body_start" not in it:
        raise Undecided("lost anchor: `%s` has no body" % blk.key)
    ins = []  # (offset, text) insertions, (a,b,text) replacements
    rep = []
    ret = blk.opts.get("ret")
    if ret:
        span = _ret_span(doc, it)
        if span is None:
            raise Undecided("lost anchor: `%s` has no return type to name" % blk.key)
        ins.append((span[0], "(%s: " % ret))
        ins.append((span[1], ")"))
    if blk.spec.strip():
        ins.append((it["body_start"], "\n" + blk.spec.rstrip() + "\n"))
    if blk.pre.strip():
        ins.append((it["body_start"] + 1, "\n" + blk.pre.rstrip() + "\n"))
    for n, inv in blk.loops.items():
        loops = it.get("loops", [])
        if n >= len(loops):
            raise Undecided("lost anchor: loop %d of `%s` not found (function has %d loops)" % (n, blk.key, len(loops)))
        ins.append((loops[n]["body_start"], "\n" + inv.rstrip() + "\n"))
    for n, txt in blk.loopbody.items():
        loops = it.get("loops", [])
        if n >= len(loops):
            raise Undecided("lost anchor: loop %d of `%s` not found" % (n, blk.key))
        ins.append((loops[n]["body_start"] + 1, "\n" + txt.rstrip() + "\n"))
    for n, txt in blk.loopend.items():
        loops = it.get("loops", [])
        if n >= len(loops):
            raise Undecided("lost anchor: loop %d of `%s` not found" % (n, blk.key))
        ins.append((loops[n]["body_end"] - 1, "\n" + txt.rstrip() + "\n"))
    if blk.post.strip():
        ins.append((it["body_end"] - 1, "\n" + blk.post.rstrip() + "\n"))
    if blk.tail.strip():
        if "tail_start" not in it:
            raise Undecided("lost anchor: `%s` has no tail expression for the //@@ tail hint" % blk.key)
        ins.append((it["tail_start"], blk.tail.rstrip() + "\n"))
    for n in range(len(it.get("loops", []))):
        if n not in blk.loops and not blk.opts.get("allow_bare_loops"):
            raise Undecided("loop %d of `%s` has no registered invariant (function restructured?)" % (n, blk.key))
    for da in it.get("debug_asserts", []):
        rep.append((da["start"], da["end"], "/* debug_assert dropped */"))
    for uc in it.get("underscore_closures", []):
        rep.append((uc["start"], uc["end"], "_e"))
    # $LOOPVAR<n> / $LOOPEXPR<n> in inserted text stand for the pattern / iterated expression of the n-th loop, so that
    # renaming a loop variable does not break an invariant
    def _subst_loopvars(t):
        for n, lp in enumerate(it.get("loops", [])):
            if "pat" in lp:
                t = t.replace("$LOOPVAR%d" % n, lp["pat"]).replace("$LOOPEXPR%d" % n, lp.get("expr", ""))
        return t
    ins = [(o, _subst_loopvars(t)) for (o, t) in ins]
    a, b = it["noattr_start"], it["end"]
    raw = doc["bytes"]
    pieces = []
    events = [(o, o, t) for (o, t) in ins] + rep
    events.sort(key=lambda e: (e[0], e[1]))
    cur = a
    for (s, e, t) in events:
        if s < cur:
            raise Undecided("overlapping insertions in `%s`" % blk.key)
        pieces.append(raw[cur:s].decode("utf-8"))
        pieces.append(t)
        cur = e
    pieces.append(raw[cur:b].decode("utf-8"))
    out = "".join(pieces)
    for (pat, repl) in blk.subst:
        pat, repl = _subst_loopvars(pat), _subst_loopvars(repl)
        if pat not in out:
            raise Undecided("lost anchor: substitution source `%s` not found in `%s`" % (pat, blk.key))
        out = out.replace(pat, repl)
    return out


def build_verus_unit(template_path, repo=None):
    """Returns (text, blocks). Template directives (each on its own line):
         //@@ source <path relative to repo>            selects the file for following blocks
         //@@ fn <item key> [ret=<name>] [as=<verus fn name suffix>] [ob=<obligation name>] [allow_bare_loops=1]
         //@@ spec | //@@ pre | //@@ loop <n> (invariant before the loop body brace) | //@@ loopbody <n> (proof hint
         at the start of the loop body) | //@@ loopend <n> (proof hint at the end of the loop body) | //@@ post (proof hint at the
         end of the function body) | //@@ tail (proof hint before the tail expression) | //@@ subst <from> ==> <to>
         //@@ end
         //@@ item <item key>          (verbatim copy of a non-fn item without attributes)
    """
    repo = repo or REPO
    lines = open(template_path).read().split("\n")
    out = []
    blocks = []
    source = None
    i = 0
    while i < len(lines):
        ln = lines[i]
        s = ln.strip()
        if s.startswith("//@@ source "):
            source = s[len("//@@ source "):].strip()
            i += 1
            continue
        if s.startswith("//@@ item "):
            key = s[len("//@@ item "):].strip()
            doc = vx(os.path.join(repo, source))
            it = find_item(doc, key)
            out.append(text(doc, it["noattr_start"], it["end"]))
            i += 1
            continue
        if s.startswith("//@@ fn "):
            rest = s[len("//@@ fn "):]
            # options are trailing k=v tokens
            toks = rest.split()
            opts = {}
            while toks and re.match(r"^[a-z_]+=\S+$", toks[-1]):
                k, v = toks.pop().split("=", 1)
                opts[k] = v
            key = " ".join(toks)
            blk = VerusBlock(key, opts)
            blk.file = source
            section = None
            i += 1
            while i < len(lines) and lines[i].strip() != "//@@ end":
                t = lines[i].strip()
                if t == "//@@ spec":
                    section = "spec"
                elif t == "//@@ pre":
                    section = "pre"
                elif t.startswith("//@@ loop "):
                    section = ("loop", int(t.split()[2]))
                    blk.loops[section[1]] = ""
                elif t.startswith("//@@ loopbody "):
                    section = ("loopbody", int(t.split()[2]))
                    blk.loopbody[section[1]] = ""
                elif t.startswith("//@@ loopend "):
                    section = ("loopend", int(t.split()[2]))
                    blk.loopend[section[1]] = ""
                elif t == "//@@ post":
                    section = "post"
                elif t == "//@@ tail":
                    section = "tail"
                elif t.startswith("//@@ subst "):
                    a, b = t[len("//@@ subst "):].split(" ==> ")
                    blk.subst.append((a, b))
                else:
                    if section == "spec":
                        blk.spec += lines[i] + "\n"
                    elif section == "pre":
                        blk.pre += lines[i] + "\n"
                    elif section == "tail":
                        blk.tail += lines[i] + "\n"
                    elif section == "post":
                        blk.post += lines[i] + "\n"
                    elif isinstance(section, tuple) and section[0] == "loopend":
                        blk.loopend[section[1]] += lines[i] + "\n"
                    elif isinstance(section, tuple) and section[0] == "loop":
                        blk.loops[section[1]] += lines[i] + "\n"
                    elif isinstance(section, tuple):
                        blk.loopbody[section[1]] += lines[i] + "\n"
                i += 1
            if i >= len(lines):
                raise Undecided("template %s: unterminated block %s" % (template_path, key))
            try:
                doc = vx(os.path.join(repo, source))
                it = find_item(doc, key, kind="fn")
                rendered = render_fn(doc, it, blk)
            except Undecided as ex:
                # a lost anchor only removes this function from the unit (its obligation becomes undecided);
                # the remaining functions are still verified unless they call the missing one
                blk.lost = str(ex)
                blocks.append(blk)
                out.append("// [lost anchor] %s: %s" % (key, ex))
                i += 1
                continue
            blk.line_start = len("\n".join(out).split("\n")) + 1 if out else 1
            out.append(rendered)
            blk.line_end = len("\n".join(out).split("\n"))
            blk.src_lines = (doc["src"][:it["start"]].count("\n") + 1, doc["src"][:it["end"]].count("\n") + 1)
            blocks.append(blk)
            i += 1
            continue
        out.append(ln)
        i += 1
    return "\n".join(out), blocks


VERUS_FAIL_PAT = re.compile(
    r"^error: (postcondition not satisfied|precondition not satisfied|invariant not satisfied[^\n]*|"
    r"assertion failed|loop invariant not preserved|possible arithmetic (?:underflow/overflow|overflow/underflow)|"
    r"possible division by zero|decreases not satisfied[^\n]*|possible bit shift underflow/overflow|"
    r"recommendation not met[^\n]*|unreachable_unchecked precondition[^\n]*|[^\n]*possible index out of bounds[^\n]*|"
    r"[^\n]*might fail[^\n]*|cannot show[^\n]*)", re.M)


def run_verus(unit_path, seed=None, timeout=600, extra=()):
    """Run verus on one file. Returns dict(functions={name: {success, time_s, mode}}, errors=[{msg, line}], raw, ok)."""
    cmd = ["verus", os.path.basename(unit_path), "--output-json", "--time-expanded", "--triggers-mode", "silent"]
    if seed is not None:
        cmd += ["--smt-option", "random_seed=%d" % (seed % 100000)]
    cmd += list(extra)
    rc, out, err, to, wall = sh2(cmd, cwd=os.path.dirname(unit_path), timeout=timeout)
    res = {"cmd": " ".join(cmd), "rc": rc, "stderr": err, "wall_s": wall, "functions": {}, "errors": [], "timed_out": to}
    if to:
        res["tool_error"] = "verus timed out after %ds" % timeout
        return res
    try:
        doc = json.loads(out)
    except Exception:
        res["tool_error"] = "verus produced no JSON (rc=%d): %s" % (rc, (err or out)[-1500:])
        return res
    vr = doc.get("verification-results", {})
    res["summary"] = vr
    for m in doc.get("times-ms", {}).get("smt", {}).get("smt-run-module-times", []):
        for f in m.get("function-breakdown", []):
            res["functions"][f["function"]] = {"success": bool(f["success"]), "time_s": f["time-micros"] / 1e6,
                                               "mode": f.get("mode:", "?"), "rlimit": f.get("rlimit")}
    # parse stderr diagnostics
    cur = None
    for ln in err.split("\n"):
        if ln.startswith("error"):
            cur = {"msg": ln[len("error: "):] if ln.startswith("error: ") else ln, "line": None, "text": ln}
            res["errors"].append(cur)
        elif cur is not None:
            cur["text"] += "\n" + ln
            m = re.match(r"^\s*--> [^:]+:(\d+):(\d+)", ln)
            if m and cur["line"] is None:
                cur["line"] = int(m.group(1))
    res["errors"] = [e for e in res["errors"] if not e["msg"].startswith("aborting due to")]
    if vr.get("encountered-vir-error") or (vr.get("encountered-error") and not vr.get("errors")):
        res["tool_error"] = "verus front-end error: " + err[-1500:]
    if "Resource limit (rlimit) exceeded" in err or "rlimit exceeded" in err.lower():
        res["rlimit"] = True
    return res


# ----------------------------------------------------------------------------------------------
# Kani: scratch copy, injection, run, playback
# ----------------------------------------------------------------------------------------------

class Scratch:
    """A scratch copy of the current working tree of /repo under SCRATCH_ROOT/<tag>/ws (flock-protected)."""

    def __init__(self, tag, repo=None):
        self.tag = tag
        self.repo = repo or REPO
        self.dir = os.path.join(SCRATCH_ROOT, tag)
        self.ws = os.path.join(self.dir, "ws")
        self.lockf = None

    def __enter__(self):
        os.makedirs(SCRATCH_ROOT, exist_ok=True)
        self.lockf = open(os.path.join(SCRATCH_ROOT, self.tag + ".lock"), "w")
        fcntl.flock(self.lockf, fcntl.LOCK_EX)
        if os.path.exists(self.dir):
            shutil.rmtree(self.dir, ignore_errors=True)
        os.makedirs(self.ws)
        rc, out, _, _ = sh(["rsync", "-a", "--exclude", "/target", "--exclude", ".git", "--exclude", ".gradle",
                            self.repo.rstrip("/") + "/", self.ws + "/"], timeout=300)
        if rc != 0:
            raise Undecided("rsync of %s failed: %s" % (self.repo, out[-500:]))
        os.makedirs(os.path.join(self.ws, ".cargo"), exist_ok=True)
        with open(os.path.join(self.ws, ".cargo", "config.toml"), "a") as f:
            f.write("\n[net]\noffline = true\n")
        return self

    def __exit__(self, *a):
        shutil.rmtree(self.dir, ignore_errors=True)
        try:
            fcntl.flock(self.lockf, fcntl.LOCK_UN)
            self.lockf.close()
        except Exception:
            pass
        return False


def prune_first_party(target_dir):
    """remove build output of first-party crates from the dependency cache"""
    if not os.path.isdir(target_dir):
        return
    for root, dirs, files in os.walk(target_dir):
        for d in list(dirs):
            if d.startswith("conjure-") or d.startswith("conjure_") or d.startswith("verif-"):
                shutil.rmtree(os.path.join(root, d), ignore_errors=True)
                dirs.remove(d)
        for f in files:
            if "conjure_" in f or f.startswith("libconjure") or f.startswith("verif_"):
                try:
                    os.remove(os.path.join(root, f))
                except OSError:
                    pass


def inject(ws, injections, repo_rel=True):
    """injections: list of dict(file=rel path, module=<text appended>, attrs=[{key, text}])
    Only attribute lines are inserted in front of items and one cfg(kani) module is appended; executable text is untouched."""
    for inj in injections:
        path = os.path.join(ws, inj["file"])
        doc = vx(path)
        raw = doc["bytes"]
        edits = []
        for a in inj.get("attrs", []):
            it = find_item(doc, a["key"], kind=a.get("kind", "fn"))
            # insert before the item (incl. its attributes), keeping indentation
            start = it["start"]
            ls = raw.rfind(b"\n", 0, start) + 1
            indent = raw[ls:start].decode("utf-8")
            if indent.strip():
                indent = ""
            edits.append((ls, (indent + a["text"].strip() + "\n").encode("utf-8")))
        edits.sort(reverse=True)
        for off, t in edits:
            raw = raw[:off] + t + raw[off:]
        if inj.get("module"):
            raw = raw + b"\n" + inj["module"].encode("utf-8") + b"\n"
        with open(path, "wb") as f:
            f.write(raw)
        _vx_cache.clear()


KANI_BASE = ["-Z", "function-contracts", "-Z", "stubbing", "-Z", "unstable-options"]


def kani_env(prop):
    return {"CARGO_TARGET_DIR": os.path.join(CACHE_ROOT, prop), "CARGO_NET_OFFLINE": "true"}


def parse_kani(out):
    """Split terse/regular Kani output into per-harness results."""
    res = {}
    # With -j the output of different harnesses interleaves: "Thread N: Checking harness X..." announces the
    # harness of thread N; its result block starts with a "Thread N: " line and continues unprefixed until
    # "Verification Time:".
    cur = {}
    bodies = {}
    active = None
    for ln in out.split("\n"):
        m = re.match(r"^Thread (\d+):\s?(.*)$", ln)
        tid = None
        rest = ln
        if m:
            tid, rest = m.group(1), m.group(2)
        mh = re.match(r"^Checking harness (\S+?)\.\.\.\s*$", rest)
        if mh:
            cur[tid] = mh.group(1)
            bodies.setdefault(mh.group(1), [])
            active = tid
            continue
        if re.match(r"^(Manual Harness Summary:|Complete - |Verification failed for - )", rest):
            active = "__none__"
            continue
        if m:
            active = tid
        if active in cur:
            bodies[cur[active]].append(rest)
    parts = [""]
    for k, v in bodies.items():
        parts += [k, "\n".join(v)]
    for i in range(1, len(parts), 2):
        name = parts[i]
        body = parts[i + 1]
        # cut at the summary
        body = re.split(r"(?m)^(Manual Harness Summary:|Complete - )", body)[0]
        r = {"raw": body.strip()[-6000:], "status": "unknown", "checks": 0, "failed": 0, "failed_checks": [],
             "time_s": None, "stubs": re.findall(r"(?m)^\s*- (?:Verified stub|Stub): (.+)$", body),
             "covers_sat": None, "covers_total": None}
        m = re.search(r"\*\* (\d+) of (\d+) failed", body)
        if m:
            r["failed"], r["checks"] = int(m.group(1)), int(m.group(2))
        m = re.search(r"\*\* (\d+) of (\d+) cover properties satisfied", body)
        if m:
            r["covers_sat"], r["covers_total"] = int(m.group(1)), int(m.group(2))
        m = re.search(r"VERIFICATION:- (SUCCESSFUL|FAILED)", body)
        if m:
            r["status"] = m.group(1)
        m = re.search(r"Verification Time: ([0-9.]+)s", body)
        if m:
            r["time_s"] = float(m.group(1))
        for fm in re.finditer(r"(?ms)^Failed Checks: (.*?)\n\s*File: \"([^\"]*)\", line (\d+), in (\S+)", body):
            r["failed_checks"].append({"desc": fm.group(1).strip(), "file": fm.group(2), "line": int(fm.group(3)), "fn": fm.group(4)})
        for fm in re.finditer(r"(?m)^Failed Checks: (.*)$", body):
            d = fm.group(1).strip()
            if not any(fc["desc"].split("\n")[0] == d for fc in r["failed_checks"]):
                r["failed_checks"].append({"desc": d, "file": "", "line": 0, "fn": ""})
        if re.search(r"(?i)timed? ?out|CBMC timed out|TIMEOUT", body) and r["status"] != "SUCCESSFUL":
            r["timeout"] = True
        if "CBMC failed" in body or "out of memory" in body.lower():
            r["crash"] = True
        res[name] = r
    return res


UNDECIDED_DESC = re.compile(r"(?i)unwinding assertion|is not currently supported by Kani|unsupported|"
                            r"recursion unwinding|not supported|Kani does not support|unreachable code.*concurrency")


def classify_kani(r):
    """-> 'ok' | 'fail' | 'undecided' with reason"""
    if r["status"] == "SUCCESSFUL":
        if r["checks"] <= 0:
            return "undecided", "zero checks (vacuous harness)"
        if r["covers_total"] is not None and r["covers_sat"] != r["covers_total"]:
            return "undecided", "cover property unsatisfiable: harness assumptions are contradictory or code unreachable"
        return "ok", ""
    if r["status"] == "FAILED":
        descs = [fc["desc"] for fc in r["failed_checks"]]
        if not descs:
            return "undecided", "FAILED without a failed-check list (tool failure/timeout)"
        real = [d for d in descs if not UNDECIDED_DESC.search(d)]
        if not real:
            return "undecided", "only unwinding/unsupported-construct checks failed: " + "; ".join(descs)[:300]
        return "fail", "; ".join(real)[:600]
    return "undecided", "no verdict (timeout, crash or harness not found)"


def run_kani(prop, ws, crate, harnesses, jobs=None, timeout=1800, harness_timeout=None, extra=()):
    """harnesses: list of fully-qualified harness names. Returns (results, raw output, cmd)."""
    cmd = ["cargo", "kani", "--manifest-path", os.path.join(crate, "Cargo.toml")] + KANI_BASE
    for h in harnesses:
        cmd += ["--harness", h]
    cmd += ["--exact"]
    if harness_timeout:
        cmd += ["--harness-timeout", "%ds" % harness_timeout]
    jobs = jobs or min(NCPU, max(1, len(harnesses)))
    cmd += ["--output-format=terse", "-j", str(jobs)]
    cmd += list(extra)
    os.makedirs(os.path.join(CACHE_ROOT, prop), exist_ok=True)
    rc, out, to, wall = sh(cmd, cwd=ws, env=kani_env(prop), timeout=timeout)
    res = parse_kani(out)
    return res, out, " ".join(cmd), rc, to, wall


def kani_build_failed(out):
    return bool(re.search(r"(?m)^error(\[E\d+\])?:", out)) and "Checking harness" not in out


def kani_playback_source(prop, ws, crate, harness, timeout=1800):
    """Re-run one failed harness with concrete playback; returns (test source or None, output)."""
    cmd = ["cargo", "kani", "--manifest-path", os.path.join(crate, "Cargo.toml")] + KANI_BASE + \
          ["-Z", "concrete-playback", "--concrete-playback=print", "--harness", harness, "--exact", "--output-format=terse"]
    rc, out, to, wall = sh(cmd, cwd=ws, env=kani_env(prop), timeout=timeout)
    tests = re.findall(r"Concrete playback unit test for `[^`]*`:\s*```\n(.*?)```", out, re.S)
    return tests, out


def decode_playback(test_src):
    """human-readable list of the byte vectors (with Kani's own decimal comments)"""
    vals = []
    for m in re.finditer(r"(?m)^\s*// (.*)\n\s*vec!\[([^\]]*)\]", test_src):
        vals.append({"comment": m.group(1).strip(), "bytes": [int(x) for x in m.group(2).split(",") if x.strip()]})
    return vals


def playback_name(test_src):
    m = re.search(r"fn (kani_concrete_playback_\w+)\(", test_src)
    return m.group(1) if m else None


def add_playback_tests(ws, file, tests):
    """Insert generated playback tests into the cfg(kani) module that ends `file`."""
    path = os.path.join(ws, file)
    s = open(path).read()
    i = s.rstrip().rfind("}")
    add = ""
    for t in tests:
        n = playback_name(t)
        if n and ("fn %s(" % n) not in s and ("fn %s(" % n) not in add:
            add += "\n" + t + "\n"
    open(path, "w").write(s[:i] + add + "}\n")


def run_playback_test(prop, ws, crate, test_src, timeout=900):
    """Execute one playback test natively with `cargo kani playback`. Returns (reproduced: bool|None, output)."""
    tname = playback_name(test_src)
    if not tname:
        return None, "no playback test name"
    cmd = ["cargo", "kani", "playback", "-Z", "concrete-playback", "--manifest-path", os.path.join(crate, "Cargo.toml"),
           "--lib", "--", tname, "--nocapture"]
    rc, out, to, wall = sh(cmd, cwd=ws, env=kani_env(prop), timeout=timeout)
    if to:
        return None, out
    if re.search(r"test result: FAILED|panicked at", out):
        return True, out
    if re.search(r"test result: ok\. 1 passed", out):
        return False, out
    return None, out


# ----------------------------------------------------------------------------------------------
# Results, evidence, known findings
# ----------------------------------------------------------------------------------------------

class Obligation:
    def __init__(self, name, engine, kind="complete", bound=None, functions=(), desc="", twin=None):
        self.name = name
        self.engine = engine        # verus | kani | scan
        self.kind = kind            # complete | bounded
        self.bound = bound
        self.functions = list(functions)
        self.desc = desc
        self.status = "pending"     # discharged | failed | undecided | known | skipped
        self.time_s = 0.0
        self.detail = ""
        self.checks = None
        self.twin = twin

    def to_json(self):
        d = {"name": self.name, "engine": self.engine, "kind": self.kind, "status": self.status,
             "time_s": round(self.time_s, 3), "functions": self.functions, "desc": self.desc}
        if self.bound:
            d["bound"] = self.bound
        if self.checks is not None:
            d["checks"] = self.checks
        if self.detail:
            d["detail"] = self.detail[:800]
        return d


def load_known_findings():
    p = os.path.join(VERIF, "known_findings.json")
    if not os.path.exists(p):
        return {"findings": [], "fixed": []}
    return json.load(open(p))


def write_replay(prop, obligation, payload):
    d = os.path.join(VERIF, "replays", prop)
    os.makedirs(d, exist_ok=True)
    h = hashlib.sha1(json.dumps(payload, sort_keys=True).encode()).hexdigest()[:10]
    p = os.path.join(d, "%s-%s.json" % (re.sub(r"[^A-Za-z0-9_.-]", "_", obligation), h))
    payload = dict(payload)
    payload["property"] = prop
    payload["obligation"] = obligation
    with open(p, "w") as f:
        json.dump(payload, f, indent=1)
    return p


ASSUMPTION_PATTERNS = [
    ("verus external_body (assumed contract or opaque type)", r"#\[verifier::external_body\]"),
    ("verus assume_specification", r"assume_specification"),
    ("verus uninterpreted spec fn", r"uninterp spec fn"),
    ("verus admit/assume", r"\b(admit|assume)\s*\("),
    ("kani::assume (input-domain restriction)", r"kani::assume\s*\("),
    ("kani::stub (unverified replacement)", r"#\[kani::stub\("),
    ("kani::stub_verified (replacement by a proved contract)", r"#\[kani::stub_verified\("),
    ("mem::forget in a harness (drop glue not executed)", r"mem::forget\s*\("),
    ("unsafe in a harness", r"\bunsafe\b"),
]


def assumption_scan(prop, extra_files=()):
    """mechanical scan of the contract files of a property for every construct that is an assumption, not a proof"""
    d = os.path.join(VERIF, "contracts", prop)
    files = sorted(os.path.join(d, f) for f in os.listdir(d) if f.endswith(".rs")) + list(extra_files)
    out = []
    for label, pat in ASSUMPTION_PATTERNS:
        hits = []
        for f in files:
            t = open(f).read()
            # "assume(" of kani is reported under its own label
            ls = [i + 1 for i, ln in enumerate(t.split("\n")) if re.search(pat, ln) and not (label.startswith("verus admit") and "kani::assume" in ln)]
            if ls:
                hits.append({"file": os.path.relpath(f, VERIF), "count": len(ls), "lines": ls[:12]})
        if hits:
            out.append({"construct": label, "total": sum(h["count"] for h in hits), "where": hits})
    return out


def write_evidence(prop, tier, seed, obligations, wall, checker_cmds, trusted, assumptions, functions, violations,
                   extra=None, partial=False):
    # obligations matched by a committed known finding are reported separately (they are neither discharged
    # nor counted among the obligations this run claims)
    counted = [o for o in obligations if o.kind == "complete" and o.engine in ("verus", "kani") and o.status != "known"]
    bounded = [o for o in obligations if o.kind == "bounded"]
    scans = [o for o in obligations if o.engine == "scan"]
    cov = {
        "obligations": len(counted),
        "discharged": len([o for o in counted if o.status == "discharged"]),
        "checker_cmd": " ;; ".join(checker_cmds) if checker_cmds else "n/a",
        "trusted_base": trusted,
        "by_backend": {
            "verus": {"obligations": len([o for o in counted if o.engine == "verus"]),
                      "discharged": len([o for o in counted if o.engine == "verus" and o.status == "discharged"]),
                      "solver_time_s": round(sum(o.time_s for o in counted if o.engine == "verus"), 3)},
            "kani": {"obligations": len([o for o in counted if o.engine == "kani"]),
                     "discharged": len([o for o in counted if o.engine == "kani" and o.status == "discharged"]),
                     "solver_time_s": round(sum(o.time_s for o in counted if o.engine == "kani"), 3)},
        },
        "bounded_not_counted_as_proved": [o.to_json() for o in bounded],
        "syntactic_scans_not_counted": [o.to_json() for o in scans],
        "known_findings": [o.to_json() for o in obligations if o.status == "known"],
        "known_finding_obligations": len([o for o in obligations if o.status == "known"]),
        "functions_under_contract": sorted(set(functions)),
        "obligation_list": [o.to_json() for o in counted],
        "samples": [o.to_json() for o in counted[:4]],
        "extraction_drops": DROP_LIST,
        "assumption_scan": assumption_scan(prop, [os.path.join(VERIF, "contracts", "C01", "de.kani.rs")] if prop == "C05" else []),
        "exhaustive": False,
    }
    if extra:
        cov.update(extra)
    ev = {"property_id": prop, "tier": tier, "seed": seed, "level": "proof", "coverage": cov,
          "assumptions": assumptions, "wall_s": round(wall, 2), "violations": violations}
    # debugging runs restricted with --only never overwrite the real evidence file
    edir = os.environ.get("VERIF_EVIDENCE_DIR") or os.path.join(VERIF, "logs" if partial else "evidence")
    os.makedirs(edir, exist_ok=True)
    with open(os.path.join(edir, prop + (".partial-evidence.json" if partial else ".json")), "w") as f:
        json.dump(ev, f, indent=1)
    return ev
