// Kani harness module for C01/C05 (deserializer side of the Override wrapper), appended to a scratch copy of
// conjure-serde/src/de/mod.rs
#[cfg(kani)]
pub(crate) mod verif_c01 {
    use super::*;
    use serde::de::IgnoredAny;

    // ---- ghost event log -------------------------------------------------------------------------------
    #[derive(Clone, Copy, PartialEq, Debug)]
    pub enum Ev {
        Nil,
        /// inner deserializer method reached (id, first argument length, second argument length)
        M(u8, usize, usize),
        // callbacks seen by the user's visitor
        VBool(bool),
        VI8(i8),
        VI16(i16),
        VI32(i32),
        VI64(i64),
        VI128(i128),
        VU8(u8),
        VU16(u16),
        VU32(u32),
        VU64(u64),
        VU128(u128),
        VF32(u32),
        VF64(u64),
        VChar(char),
        VStr(usize, u8),
        VBorrowedStr(usize, u8),
        VString(usize, u8),
        VBytes(usize, u8),
        VBorrowedBytes(usize, u8),
        VByteBuf(usize, u8),
        VNone,
        VSome,
        VUnit,
        VNewtype,
        VSeq,
        VMap,
        VEnum,
        // access objects
        SeqNext,
        MapKey,
        MapValue,
        SizeHint,
        Variant,
        UnitVariant,
        NewtypeVariant,
        TupleVariant(usize),
        StructVariant(usize),
        // hooks of the behaviour under test
        Hook(u8),
        HookStruct(usize, usize),
        KeyHook(u8),
        KeyHookStruct(usize, usize),
        /// E::unknown_field(name, fields): name length, first two bytes, number of declared fields
        UnknownField(usize, u8, u8, usize),
        /// a wrapper's wrap_visitor ran (C05 wrapping deserializer frames)
        Wrap,
    }
    pub const ANY: u8 = 0;
    pub const BOOL: u8 = 1;
    pub const I8: u8 = 2;
    pub const I16: u8 = 3;
    pub const I32: u8 = 4;
    pub const I64: u8 = 5;
    pub const I128: u8 = 6;
    pub const U8: u8 = 7;
    pub const U16: u8 = 8;
    pub const U32: u8 = 9;
    pub const U64: u8 = 10;
    pub const U128: u8 = 11;
    pub const F32: u8 = 12;
    pub const F64: u8 = 13;
    pub const CHAR: u8 = 14;
    pub const STR: u8 = 15;
    pub const STRING: u8 = 16;
    pub const BYTES: u8 = 17;
    pub const BYTE_BUF: u8 = 18;
    pub const OPTION: u8 = 19;
    pub const UNIT: u8 = 20;
    pub const UNIT_STRUCT: u8 = 21;
    pub const NEWTYPE_STRUCT: u8 = 22;
    pub const SEQ: u8 = 23;
    pub const TUPLE: u8 = 24;
    pub const TUPLE_STRUCT: u8 = 25;
    pub const MAP: u8 = 26;
    pub const STRUCT: u8 = 27;
    pub const ENUM: u8 = 28;
    pub const IDENTIFIER: u8 = 29;
    pub const IGNORED_ANY: u8 = 30;

    pub static mut LOG: [Ev; 12] = [Ev::Nil; 12];
    pub static mut N: usize = 0;
    pub fn log(e: Ev) {
        unsafe {
            if N < 12 {
                LOG[N] = e;
            }
            N += 1;
        }
    }
    pub fn reset() {
        unsafe {
            N = 0;
            LOG = [Ev::Nil; 12];
        }
    }
    pub fn n() -> usize {
        unsafe { N }
    }
    pub fn at(i: usize) -> Ev {
        unsafe { LOG[i] }
    }
    fn first(b: &[u8]) -> u8 {
        if b.is_empty() {
            0
        } else {
            b[0]
        }
    }

    #[derive(Debug)]
    pub struct E;
    impl std::fmt::Display for E {
        fn fmt(&self, _: &mut std::fmt::Formatter<'_>) -> std::fmt::Result {
            Ok(())
        }
    }
    impl std::error::Error for E {}
    impl de::Error for E {
        fn custom<T: std::fmt::Display>(_: T) -> Self {
            E
        }
        fn invalid_type(_: de::Unexpected, _: &dyn de::Expected) -> Self {
            E
        }
        fn invalid_value(_: de::Unexpected, _: &dyn de::Expected) -> Self {
            E
        }
        fn unknown_field(name: &str, fields: &'static [&'static str]) -> Self {
            let b = name.as_bytes();
            log(Ev::UnknownField(b.len(), first(b), if b.len() > 1 { b[1] } else { 0 }, fields.len()));
            E
        }
    }

    // ---- behaviour under test: value hooks and distinct key hooks, both forward afterwards -------------------
    pub enum VB {}
    pub enum KB {}
    macro_rules! hooks {
        ($hook:ident, $hook_struct:ident) => {
            fn deserialize_bool<'de, D: Deserializer<'de>, V: Visitor<'de>>(de: D, v: V) -> Result<V::Value, D::Error> {
                log(Ev::$hook(BOOL));
                de.deserialize_bool(v)
            }
            fn deserialize_f32<'de, D: Deserializer<'de>, V: Visitor<'de>>(de: D, v: V) -> Result<V::Value, D::Error> {
                log(Ev::$hook(F32));
                de.deserialize_f32(v)
            }
            fn deserialize_f64<'de, D: Deserializer<'de>, V: Visitor<'de>>(de: D, v: V) -> Result<V::Value, D::Error> {
                log(Ev::$hook(F64));
                de.deserialize_f64(v)
            }
            fn deserialize_bytes<'de, D: Deserializer<'de>, V: Visitor<'de>>(de: D, v: V) -> Result<V::Value, D::Error> {
                log(Ev::$hook(BYTES));
                de.deserialize_bytes(v)
            }
            fn deserialize_byte_buf<'de, D: Deserializer<'de>, V: Visitor<'de>>(de: D, v: V) -> Result<V::Value, D::Error> {
                log(Ev::$hook(BYTE_BUF));
                de.deserialize_byte_buf(v)
            }
            fn deserialize_struct<'de, D: Deserializer<'de>, V: Visitor<'de>>(
                de: D,
                name: &'static str,
                fields: &'static [&'static str],
                v: V,
            ) -> Result<V::Value, D::Error> {
                log(Ev::$hook_struct(name.len(), fields.len()));
                de.deserialize_struct(name, fields, v)
            }
        };
    }
    impl Behavior for VB {
        type KeyBehavior = KB;
        hooks!(Hook, HookStruct);
    }
    impl Behavior for KB {
        type KeyBehavior = KB;
        hooks!(KeyHook, KeyHookStruct);
    }
    pub enum Plain_ {}
    impl Behavior for Plain_ {
        type KeyBehavior = Plain_;
    }

    // ---- scripted inner deserializer ---------------------------------------------------------------------------
    #[derive(Clone, Copy, PartialEq)]
    pub enum Reply {
        /// answer with the natural scalar for the requested method (bool -> BOOLVAL, f64 -> F64VAL, else unit)
        Natural,
        Some_,
        None_,
        Newtype,
        Seq,
        Map,
        Enum,
        Unit,
        /// a string event: index into STRS (visit_str)
        Str(usize),
        /// the same literal as a borrowed / owned string event
        BorrowedStr(usize),
        OwnedStr(usize),
        /// numeric events regardless of the requested method
        F64Now,
        F32Now(u32),
        I64Now(i64),
        U64Now(u64),
        BoolNow,
    }
    pub static STRS: [&str; 15] = ["NaN", "Infinity", "-Infinity", "true", "false", "1.5", "QUJD", "ab", "", "-0.25", "AQ==", "AQI=", "AQ", "+/8=", "-_8="];
    pub static mut REPLIES: [Reply; 4] = [Reply::Natural; 4];
    pub static mut BOOLVAL: bool = false;
    pub static mut F64VAL: f64 = 0.0;
    pub static mut HUMAN: bool = false;

    #[derive(Clone, Copy)]
    pub struct Src(pub usize);
    #[derive(Clone, Copy)]
    pub struct Acc(pub usize);

    impl Src {
        fn reply<'de, V: Visitor<'de>>(self, m: u8, v: V) -> Result<V::Value, E> {
            let lvl = if self.0 < 4 { self.0 } else { 3 };
            match unsafe { REPLIES[lvl] } {
                Reply::Natural => match m {
                    BOOL => v.visit_bool(unsafe { BOOLVAL }),
                    F64 => v.visit_f64(unsafe { F64VAL }),
                    _ => v.visit_unit(),
                },
                Reply::Some_ => v.visit_some(Src(self.0 + 1)),
                Reply::None_ => v.visit_none(),
                Reply::Newtype => v.visit_newtype_struct(Src(self.0 + 1)),
                Reply::Seq => v.visit_seq(Acc(self.0 + 1)),
                Reply::Map => v.visit_map(Acc(self.0 + 1)),
                Reply::Enum => v.visit_enum(Acc(self.0 + 1)),
                Reply::Unit => v.visit_unit(),
                Reply::Str(i) => v.visit_str(STRS[i]),
                Reply::BorrowedStr(i) => v.visit_borrowed_str(STRS[i]),
                Reply::OwnedStr(i) => v.visit_string(String::from(STRS[i])),
                Reply::F64Now => v.visit_f64(unsafe { F64VAL }),
                Reply::F32Now(b) => v.visit_f32(f32::from_bits(b)),
                Reply::I64Now(x) => v.visit_i64(x),
                Reply::U64Now(x) => v.visit_u64(x),
                Reply::BoolNow => v.visit_bool(unsafe { BOOLVAL }),
            }
        }
    }
    macro_rules! src_methods {
        ($($method:ident = $id:ident,)*) => {
            $(
                fn $method<V: Visitor<'de>>(self, v: V) -> Result<V::Value, E> {
                    log(Ev::M($id, 0, 0));
                    self.reply($id, v)
                }
            )*
        };
    }
    impl<'de> Deserializer<'de> for Src {
        type Error = E;
        src_methods! {
            deserialize_any = ANY, deserialize_bool = BOOL, deserialize_i8 = I8, deserialize_i16 = I16, deserialize_i32 = I32,
            deserialize_i64 = I64, deserialize_i128 = I128, deserialize_u8 = U8, deserialize_u16 = U16, deserialize_u32 = U32,
            deserialize_u64 = U64, deserialize_u128 = U128, deserialize_f32 = F32, deserialize_f64 = F64, deserialize_char = CHAR,
            deserialize_str = STR, deserialize_string = STRING, deserialize_bytes = BYTES, deserialize_byte_buf = BYTE_BUF,
            deserialize_option = OPTION, deserialize_unit = UNIT, deserialize_seq = SEQ, deserialize_map = MAP,
            deserialize_identifier = IDENTIFIER, deserialize_ignored_any = IGNORED_ANY,
        }
        fn deserialize_unit_struct<V: Visitor<'de>>(self, name: &'static str, v: V) -> Result<V::Value, E> {
            log(Ev::M(UNIT_STRUCT, name.len(), 0));
            self.reply(UNIT_STRUCT, v)
        }
        fn deserialize_newtype_struct<V: Visitor<'de>>(self, name: &'static str, v: V) -> Result<V::Value, E> {
            log(Ev::M(NEWTYPE_STRUCT, name.len(), 0));
            self.reply(NEWTYPE_STRUCT, v)
        }
        fn deserialize_tuple<V: Visitor<'de>>(self, len: usize, v: V) -> Result<V::Value, E> {
            log(Ev::M(TUPLE, len, 0));
            self.reply(TUPLE, v)
        }
        fn deserialize_tuple_struct<V: Visitor<'de>>(self, name: &'static str, len: usize, v: V) -> Result<V::Value, E> {
            log(Ev::M(TUPLE_STRUCT, name.len(), len));
            self.reply(TUPLE_STRUCT, v)
        }
        fn deserialize_struct<V: Visitor<'de>>(self, name: &'static str, fields: &'static [&'static str], v: V) -> Result<V::Value, E> {
            log(Ev::M(STRUCT, name.len(), fields.len()));
            self.reply(STRUCT, v)
        }
        fn deserialize_enum<V: Visitor<'de>>(self, name: &'static str, variants: &'static [&'static str], v: V) -> Result<V::Value, E> {
            log(Ev::M(ENUM, name.len(), variants.len()));
            self.reply(ENUM, v)
        }
        fn is_human_readable(&self) -> bool {
            unsafe { HUMAN }
        }
    }
    impl<'de> SeqAccess<'de> for Acc {
        type Error = E;
        fn next_element_seed<T: DeserializeSeed<'de>>(&mut self, seed: T) -> Result<Option<T::Value>, E> {
            log(Ev::SeqNext);
            seed.deserialize(Src(self.0)).map(Some)
        }
        fn size_hint(&self) -> Option<usize> {
            log(Ev::SizeHint);
            Some(7)
        }
    }
    impl<'de> MapAccess<'de> for Acc {
        type Error = E;
        fn next_key_seed<K: DeserializeSeed<'de>>(&mut self, seed: K) -> Result<Option<K::Value>, E> {
            log(Ev::MapKey);
            seed.deserialize(Src(self.0)).map(Some)
        }
        fn next_value_seed<V: DeserializeSeed<'de>>(&mut self, seed: V) -> Result<V::Value, E> {
            log(Ev::MapValue);
            seed.deserialize(Src(self.0))
        }
        fn size_hint(&self) -> Option<usize> {
            log(Ev::SizeHint);
            Some(5)
        }
    }
    impl<'de> EnumAccess<'de> for Acc {
        type Error = E;
        type Variant = Acc;
        fn variant_seed<V: DeserializeSeed<'de>>(self, seed: V) -> Result<(V::Value, Acc), E> {
            log(Ev::Variant);
            let v = seed.deserialize(Src(self.0))?;
            Ok((v, self))
        }
    }
    impl<'de> VariantAccess<'de> for Acc {
        type Error = E;
        fn unit_variant(self) -> Result<(), E> {
            log(Ev::UnitVariant);
            Ok(())
        }
        fn newtype_variant_seed<T: DeserializeSeed<'de>>(self, seed: T) -> Result<T::Value, E> {
            log(Ev::NewtypeVariant);
            seed.deserialize(Src(self.0))
        }
        fn tuple_variant<V: Visitor<'de>>(self, len: usize, v: V) -> Result<V::Value, E> {
            log(Ev::TupleVariant(len));
            v.visit_seq(self)
        }
        fn struct_variant<V: Visitor<'de>>(self, fields: &'static [&'static str], v: V) -> Result<V::Value, E> {
            log(Ev::StructVariant(fields.len()));
            v.visit_map(self)
        }
    }

    // ---- the user's side: a visitor that logs scalars and probes every nested access ----------------------------
    /// asks the nested deserializer for an f64 (value position)
    pub struct Probe;
    impl<'de> DeserializeSeed<'de> for Probe {
        type Value = ();
        fn deserialize<D: Deserializer<'de>>(self, d: D) -> Result<(), D::Error> {
            d.deserialize_f64(UV)
        }
    }
    /// asks the nested deserializer for a bool (key position)
    pub struct ProbeKey;
    impl<'de> DeserializeSeed<'de> for ProbeKey {
        type Value = ();
        fn deserialize<D: Deserializer<'de>>(self, d: D) -> Result<(), D::Error> {
            d.deserialize_bool(UV)
        }
    }
    pub struct UV;
    macro_rules! uv_scalar {
        ($($method:ident = $t:ty => $ev:expr,)*) => {
            $(
                fn $method<Er: de::Error>(self, v: $t) -> Result<(), Er> {
                    log($ev(v));
                    Ok(())
                }
            )*
        };
    }
    impl<'de> Visitor<'de> for UV {
        type Value = ();
        fn expecting(&self, _: &mut std::fmt::Formatter) -> std::fmt::Result {
            Ok(())
        }
        uv_scalar! {
            visit_bool = bool => Ev::VBool, visit_i8 = i8 => Ev::VI8, visit_i16 = i16 => Ev::VI16, visit_i32 = i32 => Ev::VI32,
            visit_i64 = i64 => Ev::VI64, visit_i128 = i128 => Ev::VI128, visit_u8 = u8 => Ev::VU8, visit_u16 = u16 => Ev::VU16,
            visit_u32 = u32 => Ev::VU32, visit_u64 = u64 => Ev::VU64, visit_u128 = u128 => Ev::VU128, visit_char = char => Ev::VChar,
        }
        fn visit_f32<Er: de::Error>(self, v: f32) -> Result<(), Er> {
            log(Ev::VF32(v.to_bits()));
            Ok(())
        }
        fn visit_f64<Er: de::Error>(self, v: f64) -> Result<(), Er> {
            log(Ev::VF64(v.to_bits()));
            Ok(())
        }
        fn visit_str<Er: de::Error>(self, v: &str) -> Result<(), Er> {
            log(Ev::VStr(v.len(), first(v.as_bytes())));
            Ok(())
        }
        fn visit_borrowed_str<Er: de::Error>(self, v: &'de str) -> Result<(), Er> {
            log(Ev::VBorrowedStr(v.len(), first(v.as_bytes())));
            Ok(())
        }
        fn visit_string<Er: de::Error>(self, v: String) -> Result<(), Er> {
            log(Ev::VString(v.len(), first(v.as_bytes())));
            std::mem::forget(v);
            Ok(())
        }
        fn visit_bytes<Er: de::Error>(self, v: &[u8]) -> Result<(), Er> {
            log(Ev::VBytes(v.len(), first(v)));
            Ok(())
        }
        fn visit_borrowed_bytes<Er: de::Error>(self, v: &'de [u8]) -> Result<(), Er> {
            log(Ev::VBorrowedBytes(v.len(), first(v)));
            Ok(())
        }
        fn visit_byte_buf<Er: de::Error>(self, v: Vec<u8>) -> Result<(), Er> {
            log(Ev::VByteBuf(v.len(), first(&v)));
            std::mem::forget(v);
            Ok(())
        }
        fn visit_none<Er: de::Error>(self) -> Result<(), Er> {
            log(Ev::VNone);
            Ok(())
        }
        fn visit_unit<Er: de::Error>(self) -> Result<(), Er> {
            log(Ev::VUnit);
            Ok(())
        }
        fn visit_some<D: Deserializer<'de>>(self, d: D) -> Result<(), D::Error> {
            log(Ev::VSome);
            Probe.deserialize(d)
        }
        fn visit_newtype_struct<D: Deserializer<'de>>(self, d: D) -> Result<(), D::Error> {
            log(Ev::VNewtype);
            Probe.deserialize(d)
        }
        fn visit_seq<A: SeqAccess<'de>>(self, mut a: A) -> Result<(), A::Error> {
            log(Ev::VSeq);
            a.next_element_seed(Probe).map(|_| ())
        }
        fn visit_map<A: MapAccess<'de>>(self, mut a: A) -> Result<(), A::Error> {
            log(Ev::VMap);
            a.next_key_seed(ProbeKey)?;
            a.next_value_seed(Probe)
        }
        fn visit_enum<A: EnumAccess<'de>>(self, a: A) -> Result<(), A::Error> {
            log(Ev::VEnum);
            let ((), va) = a.variant_seed(Probe)?;
            va.newtype_variant_seed(Probe)
        }
    }

    pub fn script(r0: Reply, r1: Reply) {
        reset();
        unsafe {
            REPLIES = [r0, r1, Reply::Natural, Reply::Natural];
            BOOLVAL = kani::any();
            F64VAL = kani::any();
        }
    }
    pub fn fv() -> Ev {
        Ev::VF64(unsafe { F64VAL }.to_bits())
    }
    pub fn bv() -> Ev {
        Ev::VBool(unsafe { BOOLVAL })
    }
    /// trace of "the value-position probe went through the value behaviour": hook, inner method, scalar
    pub fn value_probe_at(i: usize) -> bool {
        at(i) == Ev::Hook(F64) && at(i + 1) == Ev::M(F64, 0, 0) && at(i + 2) == fv()
    }
    pub fn key_probe_at(i: usize) -> bool {
        at(i) == Ev::KeyHook(BOOL) && at(i + 1) == Ev::M(BOOL, 0, 0) && at(i + 2) == bv()
    }

    // ---- A. Deserializer methods: reach the same inner method with a visitor wrapped in B ---------------------------
    macro_rules! delegate_frame {
        ($name:ident, $method:ident, $id:ident) => {
            #[kani::proof]
            fn $name() {
                script(Reply::Some_, Reply::Natural);
                assert!(Override::<_, VB>::new(Src(0)).$method(UV).is_ok());
                // same inner method; the visitor's nested deserializer is re-wrapped: its f64 request hits the hook
                assert!(n() == 5 && at(0) == Ev::M($id, 0, 0) && at(1) == Ev::VSome && value_probe_at(2));
                kani::cover!(true);
            }
        };
    }
    delegate_frame!(d_any, deserialize_any, ANY);
    delegate_frame!(d_i8, deserialize_i8, I8);
    delegate_frame!(d_i16, deserialize_i16, I16);
    delegate_frame!(d_i32, deserialize_i32, I32);
    delegate_frame!(d_i64, deserialize_i64, I64);
    delegate_frame!(d_i128, deserialize_i128, I128);
    delegate_frame!(d_u8, deserialize_u8, U8);
    delegate_frame!(d_u16, deserialize_u16, U16);
    delegate_frame!(d_u32, deserialize_u32, U32);
    delegate_frame!(d_u64, deserialize_u64, U64);
    delegate_frame!(d_u128, deserialize_u128, U128);
    delegate_frame!(d_char, deserialize_char, CHAR);
    delegate_frame!(d_str, deserialize_str, STR);
    delegate_frame!(d_string, deserialize_string, STRING);
    delegate_frame!(d_option, deserialize_option, OPTION);
    delegate_frame!(d_unit, deserialize_unit, UNIT);
    delegate_frame!(d_seq, deserialize_seq, SEQ);
    delegate_frame!(d_map, deserialize_map, MAP);
    delegate_frame!(d_identifier, deserialize_identifier, IDENTIFIER);
    delegate_frame!(d_ignored_any, deserialize_ignored_any, IGNORED_ANY);

    macro_rules! behavior_frame {
        ($name:ident, $method:ident, $id:ident) => {
            #[kani::proof]
            fn $name() {
                script(Reply::Some_, Reply::Natural);
                assert!(Override::<_, VB>::new(Src(0)).$method(UV).is_ok());
                // the hook of B runs first, then the inner method, with a wrapped visitor
                assert!(n() == 6 && at(0) == Ev::Hook($id) && at(1) == Ev::M($id, 0, 0) && at(2) == Ev::VSome && value_probe_at(3));
                kani::cover!(true);
            }
        };
    }
    behavior_frame!(d_bool, deserialize_bool, BOOL);
    behavior_frame!(d_f32, deserialize_f32, F32);
    behavior_frame!(d_f64, deserialize_f64, F64);
    behavior_frame!(d_bytes, deserialize_bytes, BYTES);
    behavior_frame!(d_byte_buf, deserialize_byte_buf, BYTE_BUF);

    static FIELDS: [&str; 3] = ["a", "b", "c"];

    #[kani::proof]
    fn d_named_methods() {
        // a unit struct carries no nested value: the JSON and Smile deserializers can only answer with visit_unit, so all
        // that is required is that the request reaches the inner method and the answer reaches the visitor
        script(Reply::Unit, Reply::Natural);
        assert!(Override::<_, VB>::new(Src(0)).deserialize_unit_struct("Nm", UV).is_ok());
        assert!(n() == 2 && at(0) == Ev::M(UNIT_STRUCT, 2, 0) && at(1) == Ev::VUnit);
        script(Reply::Some_, Reply::Natural);
        assert!(Override::<_, VB>::new(Src(0)).deserialize_newtype_struct("Nm", UV).is_ok());
        assert!(n() == 5 && at(0) == Ev::M(NEWTYPE_STRUCT, 2, 0) && at(1) == Ev::VSome && value_probe_at(2));
        let len: usize = kani::any();
        script(Reply::Some_, Reply::Natural);
        assert!(Override::<_, VB>::new(Src(0)).deserialize_tuple(len, UV).is_ok());
        assert!(n() == 5 && at(0) == Ev::M(TUPLE, len, 0) && at(1) == Ev::VSome && value_probe_at(2));
        script(Reply::Some_, Reply::Natural);
        assert!(Override::<_, VB>::new(Src(0)).deserialize_tuple_struct("Nm", len, UV).is_ok());
        assert!(n() == 5 && at(0) == Ev::M(TUPLE_STRUCT, 2, len) && at(1) == Ev::VSome && value_probe_at(2));
        script(Reply::Some_, Reply::Natural);
        assert!(Override::<_, VB>::new(Src(0)).deserialize_enum("Nm", &FIELDS, UV).is_ok());
        assert!(n() == 5 && at(0) == Ev::M(ENUM, 2, 3) && at(1) == Ev::VSome && value_probe_at(2));
        kani::cover!(true);
    }

    #[kani::proof]
    fn d_struct_goes_through_behavior() {
        // deserialize_struct is a hook of B (this is what lets the server behaviour intercept objects)
        script(Reply::Some_, Reply::Natural);
        assert!(Override::<_, VB>::new(Src(0)).deserialize_struct("Nm", &FIELDS, UV).is_ok());
        assert!(n() == 6 && at(0) == Ev::HookStruct(2, 3) && at(1) == Ev::M(STRUCT, 2, 3) && at(2) == Ev::VSome && value_probe_at(3));
        kani::cover!(true);
    }

    #[kani::proof]
    fn d_is_human_readable_forwarded() {
        let h: bool = kani::any();
        unsafe { HUMAN = h };
        assert!(Override::<_, VB>::new(Src(0)).is_human_readable() == h);
        kani::cover!(true);
    }

    // ---- B. Visitor methods ---------------------------------------------------------------------------------------
    macro_rules! visit_scalar {
        ($name:ident, $method:ident, $t:ty, $ev:expr) => {
            #[kani::proof]
            fn $name() {
                let v: $t = kani::any();
                reset();
                assert!(Override::<_, VB>::new(UV).$method::<E>(v).is_ok());
                assert!(n() == 1 && at(0) == $ev(v));
                kani::cover!(true);
            }
        };
    }
    visit_scalar!(v_bool, visit_bool, bool, Ev::VBool);
    visit_scalar!(v_i8, visit_i8, i8, Ev::VI8);
    visit_scalar!(v_i16, visit_i16, i16, Ev::VI16);
    visit_scalar!(v_i32, visit_i32, i32, Ev::VI32);
    visit_scalar!(v_i64, visit_i64, i64, Ev::VI64);
    visit_scalar!(v_i128, visit_i128, i128, Ev::VI128);
    visit_scalar!(v_u8, visit_u8, u8, Ev::VU8);
    visit_scalar!(v_u16, visit_u16, u16, Ev::VU16);
    visit_scalar!(v_u32, visit_u32, u32, Ev::VU32);
    visit_scalar!(v_u64, visit_u64, u64, Ev::VU64);
    visit_scalar!(v_u128, visit_u128, u128, Ev::VU128);
    visit_scalar!(v_char, visit_char, char, Ev::VChar);

    #[kani::proof]
    fn v_floats_strings_bytes_none_unit() {
        let f: f32 = kani::any();
        reset();
        assert!(Override::<_, VB>::new(UV).visit_f32::<E>(f).is_ok());
        assert!(n() == 1 && at(0) == Ev::VF32(f.to_bits()));
        let d: f64 = kani::any();
        reset();
        assert!(Override::<_, VB>::new(UV).visit_f64::<E>(d).is_ok());
        assert!(n() == 1 && at(0) == Ev::VF64(d.to_bits()));
        reset();
        assert!(Override::<_, VB>::new(UV).visit_str::<E>("ab").is_ok());
        assert!(n() == 1 && at(0) == Ev::VStr(2, b'a'));
        reset();
        assert!(Override::<_, VB>::new(UV).visit_borrowed_str::<E>("abc").is_ok());
        assert!(n() == 1 && at(0) == Ev::VBorrowedStr(3, b'a'));
        let b: [u8; 2] = kani::any();
        reset();
        assert!(Override::<_, VB>::new(UV).visit_bytes::<E>(&b).is_ok());
        assert!(n() == 1 && at(0) == Ev::VBytes(2, b[0]));
        static SB: [u8; 3] = [7, 8, 9];
        reset();
        assert!(Override::<_, VB>::new(UV).visit_borrowed_bytes::<E>(&SB).is_ok());
        assert!(n() == 1 && at(0) == Ev::VBorrowedBytes(3, 7));
        reset();
        assert!(Override::<_, VB>::new(UV).visit_none::<E>().is_ok());
        assert!(n() == 1 && at(0) == Ev::VNone);
        reset();
        assert!(Override::<_, VB>::new(UV).visit_unit::<E>().is_ok());
        assert!(n() == 1 && at(0) == Ev::VUnit);
        kani::cover!(true);
    }

    #[kani::proof]
    #[kani::unwind(4)]
    fn v_owned_string_and_byte_buf() {
        reset();
        assert!(Override::<_, VB>::new(UV).visit_string::<E>(String::from("xy")).is_ok());
        assert!(n() == 1 && at(0) == Ev::VString(2, b'x'));
        let b: u8 = kani::any();
        reset();
        let mut v = Vec::with_capacity(1);
        v.push(b);
        assert!(Override::<_, VB>::new(UV).visit_byte_buf::<E>(v).is_ok());
        assert!(n() == 1 && at(0) == Ev::VByteBuf(1, b));
        kani::cover!(true);
    }

    #[kani::proof]
    fn v_some_and_newtype_rewrap() {
        script(Reply::Natural, Reply::Natural);
        assert!(Override::<_, VB>::new(UV).visit_some(Src(0)).is_ok());
        assert!(n() == 4 && at(0) == Ev::VSome && value_probe_at(1));
        script(Reply::Natural, Reply::Natural);
        assert!(Override::<_, VB>::new(UV).visit_newtype_struct(Src(0)).is_ok());
        assert!(n() == 4 && at(0) == Ev::VNewtype && value_probe_at(1));
        kani::cover!(true);
    }

    #[kani::proof]
    fn v_seq_rewraps() {
        script(Reply::Natural, Reply::Natural);
        assert!(Override::<_, VB>::new(UV).visit_seq(Acc(0)).is_ok());
        assert!(n() == 5 && at(0) == Ev::VSeq && at(1) == Ev::SeqNext && value_probe_at(2));
        kani::cover!(true);
    }

    #[kani::proof]
    fn v_map_rewraps_keys_with_key_behavior() {
        script(Reply::Natural, Reply::Natural);
        assert!(Override::<_, VB>::new(UV).visit_map(Acc(0)).is_ok());
        assert!(n() == 9 && at(0) == Ev::VMap && at(1) == Ev::MapKey && key_probe_at(2) && at(5) == Ev::MapValue && value_probe_at(6));
        kani::cover!(true);
    }

    #[kani::proof]
    fn v_enum_rewraps() {
        script(Reply::Natural, Reply::Natural);
        assert!(Override::<_, VB>::new(UV).visit_enum(Acc(0)).is_ok());
        assert!(n() == 9 && at(0) == Ev::VEnum && at(1) == Ev::Variant && value_probe_at(2) && at(5) == Ev::NewtypeVariant && value_probe_at(6));
        kani::cover!(true);
    }

    // ---- C. access objects ---------------------------------------------------------------------------------------------
    #[kani::proof]
    fn seq_access_frame() {
        script(Reply::Natural, Reply::Natural);
        let mut a = Override::<_, VB>::new(Acc(0));
        assert!(SeqAccess::next_element_seed(&mut a, Probe).is_ok());
        assert!(n() == 4 && at(0) == Ev::SeqNext && value_probe_at(1));
        reset();
        assert!(SeqAccess::size_hint(&a) == Some(7));
        assert!(n() == 1 && at(0) == Ev::SizeHint);
        kani::cover!(true);
    }

    #[kani::proof]
    fn map_access_frame() {
        script(Reply::Natural, Reply::Natural);
        let mut a = Override::<_, VB>::new(Acc(0));
        // keys get B::KeyBehavior
        assert!(MapAccess::next_key_seed(&mut a, ProbeKey).is_ok());
        assert!(n() == 4 && at(0) == Ev::MapKey && key_probe_at(1));
        // values get B
        reset();
        assert!(MapAccess::next_value_seed(&mut a, Probe).is_ok());
        assert!(n() == 4 && at(0) == Ev::MapValue && value_probe_at(1));
        // a bool in value position is not given key treatment
        reset();
        assert!(MapAccess::next_value_seed(&mut a, ProbeKey).is_ok());
        assert!(n() == 4 && at(0) == Ev::MapValue && at(1) == Ev::Hook(BOOL) && at(2) == Ev::M(BOOL, 0, 0) && at(3) == bv());
        reset();
        assert!(MapAccess::size_hint(&a) == Some(5));
        assert!(n() == 1 && at(0) == Ev::SizeHint);
        kani::cover!(true);
    }

    #[kani::proof]
    fn key_behavior_is_sticky_below_a_key() {
        // key wrapped in an optional / alias: the nested value still gets key treatment
        script(Reply::Some_, Reply::Natural);
        let mut a = Override::<_, VB>::new(Acc(0));
        struct OptKey;
        impl<'de> DeserializeSeed<'de> for OptKey {
            type Value = ();
            fn deserialize<D: Deserializer<'de>>(self, d: D) -> Result<(), D::Error> {
                d.deserialize_option(UK)
            }
        }
        struct UK;
        impl<'de> Visitor<'de> for UK {
            type Value = ();
            fn expecting(&self, _: &mut std::fmt::Formatter) -> std::fmt::Result {
                Ok(())
            }
            fn visit_some<D: Deserializer<'de>>(self, d: D) -> Result<(), D::Error> {
                log(Ev::VSome);
                ProbeKey.deserialize(d)
            }
        }
        assert!(MapAccess::next_key_seed(&mut a, OptKey).is_ok());
        assert!(n() == 6 && at(0) == Ev::MapKey && at(1) == Ev::M(OPTION, 0, 0) && at(2) == Ev::VSome && key_probe_at(3));
        kani::cover!(true);
    }

    #[kani::proof]
    fn enum_and_variant_access_frame() {
        script(Reply::Natural, Reply::Natural);
        let (_, va) = EnumAccess::variant_seed(Override::<_, VB>::new(Acc(0)), Probe).unwrap();
        assert!(n() == 4 && at(0) == Ev::Variant && value_probe_at(1));
        reset();
        assert!(VariantAccess::newtype_variant_seed(va, Probe).is_ok());
        assert!(n() == 4 && at(0) == Ev::NewtypeVariant && value_probe_at(1));
        reset();
        assert!(VariantAccess::unit_variant(Override::<_, VB>::new(Acc(0))).is_ok());
        assert!(n() == 1 && at(0) == Ev::UnitVariant);
        let len: usize = kani::any();
        reset();
        assert!(VariantAccess::tuple_variant(Override::<_, VB>::new(Acc(0)), len, UV).is_ok());
        assert!(n() == 6 && at(0) == Ev::TupleVariant(len) && at(1) == Ev::VSeq && at(2) == Ev::SeqNext && value_probe_at(3));
        reset();
        assert!(VariantAccess::struct_variant(Override::<_, VB>::new(Acc(0)), &FIELDS, UV).is_ok());
        assert!(n() == 10 && at(0) == Ev::StructVariant(3) && at(1) == Ev::VMap && at(2) == Ev::MapKey && key_probe_at(3) && at(6) == Ev::MapValue && value_probe_at(7));
        kani::cover!(true);
    }

    #[kani::proof]
    fn seed_wraps_the_deserializer() {
        script(Reply::Natural, Reply::Natural);
        assert!(DeserializeSeed::deserialize(Override::<_, VB>::new(Probe), Src(0)).is_ok());
        assert!(n() == 3 && value_probe_at(0));
        script(Reply::Natural, Reply::Natural);
        assert!(DeserializeSeed::deserialize(Override::<_, KB>::new(ProbeKey), Src(0)).is_ok());
        assert!(n() == 3 && key_probe_at(0));
        kani::cover!(true);
    }

    // ---- D. default hooks of trait Behavior are the identity (this is the lenient client behaviour for structs) ------
    #[kani::proof]
    fn default_behavior_is_identity() {
        script(Reply::Natural, Reply::Natural);
        assert!(Override::<_, Plain_>::new(Src(0)).deserialize_bool(UV).is_ok());
        assert!(n() == 2 && at(0) == Ev::M(BOOL, 0, 0) && at(1) == bv());
        script(Reply::Natural, Reply::Natural);
        assert!(Override::<_, Plain_>::new(Src(0)).deserialize_f64(UV).is_ok());
        assert!(n() == 2 && at(0) == Ev::M(F64, 0, 0) && at(1) == fv());
        script(Reply::Unit, Reply::Natural);
        assert!(Override::<_, Plain_>::new(Src(0)).deserialize_f32(UV).is_ok());
        assert!(n() == 2 && at(0) == Ev::M(F32, 0, 0) && at(1) == Ev::VUnit);
        script(Reply::Unit, Reply::Natural);
        assert!(Override::<_, Plain_>::new(Src(0)).deserialize_bytes(UV).is_ok());
        assert!(n() == 2 && at(0) == Ev::M(BYTES, 0, 0));
        script(Reply::Unit, Reply::Natural);
        assert!(Override::<_, Plain_>::new(Src(0)).deserialize_byte_buf(UV).is_ok());
        assert!(n() == 2 && at(0) == Ev::M(BYTE_BUF, 0, 0));
        script(Reply::Unit, Reply::Natural);
        assert!(Override::<_, Plain_>::new(Src(0)).deserialize_struct("Nm", &FIELDS, UV).is_ok());
        assert!(n() == 2 && at(0) == Ev::M(STRUCT, 2, 3));
        kani::cover!(true);
    }
    #[allow(dead_code)]
    fn _unused(_: IgnoredAny) {}

    // ---- E. the entry-point macro impl_deserialize_body! instantiated on the scripted inner deserializer ----------
    // (the four Conjure deserializers are exactly this macro applied to serde_json's / serde_smile's deserializer
    // with their behaviour; the obligations hold for the macro text, whatever the inner type)

    pub struct SrcM;
    macro_rules! fwd {
        ($($method:ident,)*) => {
            $(fn $method<V: Visitor<'de>>(self, v: V) -> Result<V::Value, E> { Src(0).$method(v) })*
        };
    }
    impl<'a, 'de> Deserializer<'de> for &'a mut SrcM {
        type Error = E;
        fwd! {
            deserialize_any, deserialize_bool, deserialize_i8, deserialize_i16, deserialize_i32, deserialize_i64, deserialize_i128,
            deserialize_u8, deserialize_u16, deserialize_u32, deserialize_u64, deserialize_u128, deserialize_f32, deserialize_f64,
            deserialize_char, deserialize_str, deserialize_string, deserialize_bytes, deserialize_byte_buf, deserialize_option,
            deserialize_unit, deserialize_seq, deserialize_map, deserialize_identifier, deserialize_ignored_any,
        }
        fn deserialize_unit_struct<V: Visitor<'de>>(self, n: &'static str, v: V) -> Result<V::Value, E> { Src(0).deserialize_unit_struct(n, v) }
        fn deserialize_newtype_struct<V: Visitor<'de>>(self, n: &'static str, v: V) -> Result<V::Value, E> { Src(0).deserialize_newtype_struct(n, v) }
        fn deserialize_tuple<V: Visitor<'de>>(self, len: usize, v: V) -> Result<V::Value, E> { Src(0).deserialize_tuple(len, v) }
        fn deserialize_tuple_struct<V: Visitor<'de>>(self, n: &'static str, len: usize, v: V) -> Result<V::Value, E> { Src(0).deserialize_tuple_struct(n, len, v) }
        fn deserialize_struct<V: Visitor<'de>>(self, n: &'static str, f: &'static [&'static str], v: V) -> Result<V::Value, E> { Src(0).deserialize_struct(n, f, v) }
        fn deserialize_enum<V: Visitor<'de>>(self, n: &'static str, f: &'static [&'static str], v: V) -> Result<V::Value, E> { Src(0).deserialize_enum(n, f, v) }
    }

    pub struct EntryD(pub SrcM);
    impl<'a, 'de> de::Deserializer<'de> for &'a mut EntryD {
        impl_deserialize_body!(&'a mut SrcM, VB);
    }

    macro_rules! entry_delegate {
        ($name:ident, $method:ident, $id:ident) => {
            #[kani::proof]
            fn $name() {
                let mut e = EntryD(SrcM);
                script(Reply::Some_, Reply::Natural);
                assert!(de::Deserializer::$method(&mut e, UV).is_ok());
                assert!(n() == 5 && at(0) == Ev::M($id, 0, 0) && at(1) == Ev::VSome && value_probe_at(2));
                kani::cover!(true);
            }
        };
    }
    entry_delegate!(entry_any, deserialize_any, ANY);
    entry_delegate!(entry_i8, deserialize_i8, I8);
    entry_delegate!(entry_i16, deserialize_i16, I16);
    entry_delegate!(entry_i32, deserialize_i32, I32);
    entry_delegate!(entry_i64, deserialize_i64, I64);
    entry_delegate!(entry_i128, deserialize_i128, I128);
    entry_delegate!(entry_u8, deserialize_u8, U8);
    entry_delegate!(entry_u16, deserialize_u16, U16);
    entry_delegate!(entry_u32, deserialize_u32, U32);
    entry_delegate!(entry_u64, deserialize_u64, U64);
    entry_delegate!(entry_u128, deserialize_u128, U128);
    entry_delegate!(entry_char, deserialize_char, CHAR);
    entry_delegate!(entry_str, deserialize_str, STR);
    entry_delegate!(entry_string, deserialize_string, STRING);
    entry_delegate!(entry_option, deserialize_option, OPTION);
    entry_delegate!(entry_unit, deserialize_unit, UNIT);
    entry_delegate!(entry_seq, deserialize_seq, SEQ);
    entry_delegate!(entry_map, deserialize_map, MAP);
    entry_delegate!(entry_identifier, deserialize_identifier, IDENTIFIER);
    entry_delegate!(entry_ignored_any, deserialize_ignored_any, IGNORED_ANY);

    macro_rules! entry_behavior {
        ($name:ident, $method:ident, $id:ident) => {
            #[kani::proof]
            fn $name() {
                let mut e = EntryD(SrcM);
                script(Reply::Some_, Reply::Natural);
                assert!(de::Deserializer::$method(&mut e, UV).is_ok());
                assert!(n() == 6 && at(0) == Ev::Hook($id) && at(1) == Ev::M($id, 0, 0) && at(2) == Ev::VSome && value_probe_at(3));
                kani::cover!(true);
            }
        };
    }
    entry_behavior!(entry_bool, deserialize_bool, BOOL);
    entry_behavior!(entry_f32, deserialize_f32, F32);
    entry_behavior!(entry_f64, deserialize_f64, F64);
    entry_behavior!(entry_bytes, deserialize_bytes, BYTES);
    entry_behavior!(entry_byte_buf, deserialize_byte_buf, BYTE_BUF);

    #[kani::proof]
    fn entry_named_methods() {
        let mut e = EntryD(SrcM);
        let len: usize = kani::any();
        script(Reply::Unit, Reply::Natural);
        assert!(de::Deserializer::deserialize_unit_struct(&mut e, "Nm", UV).is_ok());
        assert!(n() == 2 && at(0) == Ev::M(UNIT_STRUCT, 2, 0) && at(1) == Ev::VUnit);
        script(Reply::Some_, Reply::Natural);
        assert!(de::Deserializer::deserialize_newtype_struct(&mut e, "Nm", UV).is_ok());
        assert!(n() == 5 && at(0) == Ev::M(NEWTYPE_STRUCT, 2, 0) && at(1) == Ev::VSome && value_probe_at(2));
        script(Reply::Some_, Reply::Natural);
        assert!(de::Deserializer::deserialize_tuple(&mut e, len, UV).is_ok());
        assert!(n() == 5 && at(0) == Ev::M(TUPLE, len, 0) && at(1) == Ev::VSome && value_probe_at(2));
        script(Reply::Some_, Reply::Natural);
        assert!(de::Deserializer::deserialize_tuple_struct(&mut e, "Nm", len, UV).is_ok());
        assert!(n() == 5 && at(0) == Ev::M(TUPLE_STRUCT, 2, len) && at(1) == Ev::VSome && value_probe_at(2));
        script(Reply::Some_, Reply::Natural);
        assert!(de::Deserializer::deserialize_enum(&mut e, "Nm", &FIELDS, UV).is_ok());
        assert!(n() == 5 && at(0) == Ev::M(ENUM, 2, 3) && at(1) == Ev::VSome && value_probe_at(2));
        // objects go through the behaviour's struct hook: this is where the server behaviour intercepts
        script(Reply::Some_, Reply::Natural);
        assert!(de::Deserializer::deserialize_struct(&mut e, "Nm", &FIELDS, UV).is_ok());
        assert!(n() == 6 && at(0) == Ev::HookStruct(2, 3) && at(1) == Ev::M(STRUCT, 2, 3) && at(2) == Ev::VSome && value_probe_at(3));
        kani::cover!(true);
    }
}
