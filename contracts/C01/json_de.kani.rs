// Kani harness module for C01 (Conjure JSON behaviours, deserializer side), appended to a scratch copy of
// conjure-serde/src/json/de/client.rs. Uses the scripted source / logging visitor of crate::de::verif_c01.
#[cfg(kani)]
mod verif_c01 {
    use super::*;
    use crate::de::verif_c01::{at, bv, fv, n, reset, script, Ev, Reply, Src, E, UV, ANY, STR, F64VAL};
    use std::marker::PhantomData;

    #[allow(dead_code)]
    fn wiring() {
        let _: PhantomData<<ValueBehavior as Behavior>::KeyBehavior> = PhantomData::<KeyBehavior>;
        let _: PhantomData<<KeyBehavior as Behavior>::KeyBehavior> = PhantomData::<KeyBehavior>;
    }

    const NAN_BITS: u64 = 0x7ff8_0000_0000_0000;

    // ---- value position: doubles ------------------------------------------------------------------------
    #[kani::proof]
    #[kani::unwind(12)]
    fn value_f64_from_special_strings() {
        // all three string forms (visit_str / visit_borrowed_str / visit_string) of each special spelling
        let which: usize = kani::any();
        kani::assume(which < 3);
        let form: u8 = kani::any();
        kani::assume(form < 3);
        let r = match form {
            0 => Reply::Str(which),
            1 => Reply::BorrowedStr(which),
            _ => Reply::OwnedStr(which),
        };
        script(r, Reply::Natural);
        assert!(<ValueBehavior as Behavior>::deserialize_f64(Src(0), UV).is_ok());
        assert!(n() == 2 && at(0) == Ev::M(ANY, 0, 0));
        match which {
            0 => assert!(matches!(at(1), Ev::VF64(b) if f64::from_bits(b).is_nan())),
            1 => assert!(at(1) == Ev::VF64(f64::INFINITY.to_bits())),
            _ => assert!(at(1) == Ev::VF64(f64::NEG_INFINITY.to_bits())),
        }
        kani::cover!(which == 2 && form == 2);
    }

    #[kani::proof]
    #[kani::unwind(12)]
    fn value_f64_numbers_and_other_events_pass_through() {
        // a native number reaches the visitor unchanged (all f64), integers too
        script(Reply::F64Now, Reply::Natural);
        assert!(<ValueBehavior as Behavior>::deserialize_f64(Src(0), UV).is_ok());
        assert!(n() == 2 && at(0) == Ev::M(ANY, 0, 0) && at(1) == fv());
        let i: i64 = kani::any();
        script(Reply::I64Now(i), Reply::Natural);
        assert!(<ValueBehavior as Behavior>::deserialize_f64(Src(0), UV).is_ok());
        assert!(n() == 2 && at(1) == Ev::VI64(i));
        let u: u64 = kani::any();
        script(Reply::U64Now(u), Reply::Natural);
        assert!(<ValueBehavior as Behavior>::deserialize_f64(Src(0), UV).is_ok());
        assert!(n() == 2 && at(1) == Ev::VU64(u));
        // any other string is handed to the visitor as a string (the f64 visitor then rejects it)
        script(Reply::Str(7), Reply::Natural);
        assert!(<ValueBehavior as Behavior>::deserialize_f64(Src(0), UV).is_ok());
        assert!(n() == 2 && at(1) == Ev::VStr(2, b'a'));
        kani::cover!(true);
    }

    #[kani::proof]
    #[kani::unwind(12)]
    fn value_f32_hook() {
        let which: usize = kani::any();
        kani::assume(which < 3);
        script(Reply::Str(which), Reply::Natural);
        assert!(<ValueBehavior as Behavior>::deserialize_f32(Src(0), UV).is_ok());
        assert!(n() == 2 && at(0) == Ev::M(ANY, 0, 0));
        match which {
            0 => assert!(matches!(at(1), Ev::VF32(b) if f32::from_bits(b).is_nan())),
            1 => assert!(at(1) == Ev::VF32(f32::INFINITY.to_bits())),
            _ => assert!(at(1) == Ev::VF32(f32::NEG_INFINITY.to_bits())),
        }
        let b: u32 = kani::any();
        script(Reply::F32Now(b), Reply::Natural);
        assert!(<ValueBehavior as Behavior>::deserialize_f32(Src(0), UV).is_ok());
        assert!(n() == 2 && at(1) == Ev::VF32(b));
        kani::cover!(true);
    }

    // ---- hook-level inverse for ALL doubles: what the serializer hook emits, the deserializer hook reads back ----
    #[kani::proof]
    #[kani::unwind(14)]
    fn value_f64_hook_roundtrip() {
        use crate::ser::verif_c01 as s;
        let v: f64 = kani::any();
        s::reset();
        assert!(<crate::json::ser::ValueBehavior as crate::ser::Behavior>::serialize_f64(s::Sink, v).is_ok());
        assert!(s::n() == 1);
        let (reply, val) = match s::at(0) {
            s::Ev::Str(..) => {
                if s::last_str_is(b"NaN") {
                    (Reply::Str(0), 0.0)
                } else if s::last_str_is(b"Infinity") {
                    (Reply::Str(1), 0.0)
                } else {
                    assert!(s::last_str_is(b"-Infinity"));
                    (Reply::Str(2), 0.0)
                }
            }
            s::Ev::F64(bits) => (Reply::F64Now, f64::from_bits(bits)),
            _ => {
                assert!(false);
                (Reply::Unit, 0.0)
            }
        };
        script(reply, Reply::Natural);
        unsafe { F64VAL = val };
        assert!(<ValueBehavior as Behavior>::deserialize_f64(Src(0), UV).is_ok());
        assert!(n() == 2);
        match at(1) {
            Ev::VF64(w) => assert!(w == v.to_bits() || (v.is_nan() && f64::from_bits(w).is_nan())),
            _ => assert!(false),
        }
        kani::cover!(v.is_nan());
        kani::cover!(v == f64::NEG_INFINITY);
        kani::cover!(v.is_finite());
    }

    // ---- value position: binary is Base64 text ------------------------------------------------------------------
    #[kani::proof]
    #[kani::unwind(16)]
    fn value_bytes_from_base64_string() {
        script(Reply::Str(6), Reply::Natural);
        assert!(<ValueBehavior as Behavior>::deserialize_bytes(Src(0), UV).is_ok());
        assert!(n() == 2 && at(0) == Ev::M(STR, 0, 0) && at(1) == Ev::VByteBuf(3, b'A'));
        script(Reply::Str(6), Reply::Natural);
        assert!(<ValueBehavior as Behavior>::deserialize_byte_buf(Src(0), UV).is_ok());
        assert!(n() == 2 && at(0) == Ev::M(STR, 0, 0) && at(1) == Ev::VByteBuf(3, b'A'));
        kani::cover!(true);
    }

    // padded forms: one byte -> "xx==", two bytes -> "xxx="; the unpadded spelling is not standard Base64 and is rejected
    #[kani::proof]
    #[kani::unwind(16)]
    fn value_bytes_padding() {
        script(Reply::Str(10), Reply::Natural);
        assert!(<ValueBehavior as Behavior>::deserialize_bytes(Src(0), UV).is_ok());
        assert!(n() == 2 && at(0) == Ev::M(STR, 0, 0) && at(1) == Ev::VByteBuf(1, 1));
        script(Reply::Str(11), Reply::Natural);
        assert!(<ValueBehavior as Behavior>::deserialize_byte_buf(Src(0), UV).is_ok());
        assert!(n() == 2 && at(0) == Ev::M(STR, 0, 0) && at(1) == Ev::VByteBuf(2, 1));
        script(Reply::Str(10), Reply::Natural);
        assert!(<KeyBehavior as Behavior>::deserialize_bytes(Src(0), UV).is_ok());
        assert!(n() == 2 && at(1) == Ev::VByteBuf(1, 1));
        script(Reply::Str(12), Reply::Natural);
        assert!(<ValueBehavior as Behavior>::deserialize_bytes(Src(0), UV).is_err());
        assert!(n() == 1);
        // the standard alphabet ('+', '/'), not the URL-safe one ('-', '_')
        script(Reply::Str(13), Reply::Natural);
        assert!(<ValueBehavior as Behavior>::deserialize_bytes(Src(0), UV).is_ok());
        assert!(n() == 2 && at(1) == Ev::VByteBuf(2, 0xfb));
        script(Reply::Str(14), Reply::Natural);
        assert!(<ValueBehavior as Behavior>::deserialize_bytes(Src(0), UV).is_err());
        kani::cover!(true);
    }

    // ---- key position ----------------------------------------------------------------------------------------------
    #[kani::proof]
    #[kani::unwind(12)]
    fn key_bool_from_string() {
        let t: bool = kani::any();
        script(Reply::Str(if t { 3 } else { 4 }), Reply::Natural);
        assert!(<KeyBehavior as Behavior>::deserialize_bool(Src(0), UV).is_ok());
        assert!(n() == 2 && at(0) == Ev::M(STR, 0, 0) && at(1) == Ev::VBool(t));
        kani::cover!(t);
        kani::cover!(!t);
    }

    // one harness per spelling: with a concrete string the number-parsing arm is pruned
    macro_rules! key_float_special {
        ($name:ident, $which:expr, $c64:expr, $c32:expr) => {
            #[kani::proof]
            #[kani::unwind(12)]
            fn $name() {
                script(Reply::Str($which), Reply::Natural);
                assert!(<KeyBehavior as Behavior>::deserialize_f64(Src(0), UV).is_ok());
                assert!(n() == 2 && at(0) == Ev::M(STR, 0, 0));
                assert!(matches!(at(1), Ev::VF64(b) if $c64(f64::from_bits(b))));
                script(Reply::Str($which), Reply::Natural);
                assert!(<KeyBehavior as Behavior>::deserialize_f32(Src(0), UV).is_ok());
                assert!(n() == 2 && at(0) == Ev::M(STR, 0, 0));
                assert!(matches!(at(1), Ev::VF32(b) if $c32(f32::from_bits(b))));
                kani::cover!(true);
            }
        };
    }
    key_float_special!(key_float_nan, 0, |x: f64| x.is_nan(), |x: f32| x.is_nan());
    key_float_special!(key_float_inf, 1, |x: f64| x == f64::INFINITY, |x: f32| x == f32::INFINITY);
    key_float_special!(key_float_neg_inf, 2, |x: f64| x == f64::NEG_INFINITY, |x: f32| x == f32::NEG_INFINITY);

    // finite double keys and rejected spellings (concrete literals: float parsing of a symbolic string is out of reach)
    #[kani::proof]
    #[kani::unwind(12)]
    fn key_f64_finite_literals() {
        script(Reply::Str(5), Reply::Natural);
        assert!(<KeyBehavior as Behavior>::deserialize_f64(Src(0), UV).is_ok());
        assert!(n() == 2 && at(1) == Ev::VF64(1.5f64.to_bits()));
        script(Reply::Str(9), Reply::Natural);
        assert!(<KeyBehavior as Behavior>::deserialize_f64(Src(0), UV).is_ok());
        assert!(n() == 2 && at(1) == Ev::VF64((-0.25f64).to_bits()));
        script(Reply::Str(5), Reply::Natural);
        assert!(<KeyBehavior as Behavior>::deserialize_f32(Src(0), UV).is_ok());
        assert!(n() == 2 && at(1) == Ev::VF32(1.5f32.to_bits()));
        kani::cover!(true);
    }

    #[kani::proof]
    #[kani::unwind(12)]
    fn key_hooks_reject_other_strings() {
        // "ab" is neither a boolean nor a number
        script(Reply::Str(7), Reply::Natural);
        assert!(<KeyBehavior as Behavior>::deserialize_bool(Src(0), UV).is_err());
        assert!(n() == 1);
        script(Reply::Str(7), Reply::Natural);
        assert!(<KeyBehavior as Behavior>::deserialize_f64(Src(0), UV).is_err());
        assert!(n() == 1);
        // a number is not a boolean key, a boolean is not a double key
        script(Reply::Str(5), Reply::Natural);
        assert!(<KeyBehavior as Behavior>::deserialize_bool(Src(0), UV).is_err());
        script(Reply::Str(3), Reply::Natural);
        assert!(<KeyBehavior as Behavior>::deserialize_f64(Src(0), UV).is_err());
        kani::cover!(true);
    }

    #[kani::proof]
    #[kani::unwind(16)]
    fn key_bytes_from_base64_string() {
        script(Reply::Str(6), Reply::Natural);
        assert!(<KeyBehavior as Behavior>::deserialize_bytes(Src(0), UV).is_ok());
        assert!(n() == 2 && at(0) == Ev::M(STR, 0, 0) && at(1) == Ev::VByteBuf(3, b'A'));
        kani::cover!(true);
    }

    #[allow(dead_code)]
    fn _u() {
        let _ = (bv(), reset, NAN_BITS, PhantomData::<E>);
    }
}
