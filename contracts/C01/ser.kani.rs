// Kani harness module for C01 (serializer side), appended to a scratch copy of conjure-serde/src/ser.rs
#[cfg(kani)]
pub(crate) mod verif_c01 {
    use super::*;
    use serde::ser::Error as _;

    // ---- ghost event log -------------------------------------------------------------------------------
    #[derive(Clone, Copy, PartialEq, Debug)]
    pub enum Ev {
        Nil,
        Bool(bool),
        I8(i8),
        I16(i16),
        I32(i32),
        I64(i64),
        I128(i128),
        U8(u8),
        U16(u16),
        U32(u32),
        U64(u64),
        U128(u128),
        F32(u32),
        F64(u64),
        Char(char),
        Str(usize, u8),
        Bytes(usize, u8),
        None_,
        Unit,
        UnitStruct(usize),
        /// (index, name length, variant length)
        UnitVariant(u32, usize, usize),
        Some_,
        NewtypeStruct(usize),
        NewtypeVariant(u32, usize, usize),
        Seq(Option<usize>),
        Tuple(usize),
        TupleStruct(usize, usize),
        /// (index, name length, variant length, len)
        TupleVariant(u32, usize, usize, usize),
        Map(Option<usize>),
        Struct(usize, usize),
        StructVariant(u32, usize, usize, usize),
        Elem,
        Field(usize),
        Key,
        Value,
        End,
        Skip(usize),
        // hooks of the behaviour under test
        HookBool(bool),
        HookF32(u32),
        HookF64(u64),
        HookBytes(usize),
        KeyHookBool(bool),
        KeyHookF32(u32),
        KeyHookF64(u64),
        KeyHookBytes(usize),
        // collect_str(&T): what is being displayed (never formatted: the value may be symbolic)
        CollectF32(u32),
        CollectF64(u64),
        CollectBase64,
        CollectOther,
    }
    /// copy of the last string event (up to 12 bytes), for exact comparison against literals
    pub static mut STRBUF: [u8; 12] = [0; 12];
    pub static mut STRLEN: usize = 0;
    pub fn last_str_is(lit: &[u8]) -> bool {
        unsafe {
            if STRLEN != lit.len() {
                return false;
            }
            let mut i = 0;
            while i < lit.len() && i < 12 {
                if STRBUF[i] != lit[i] {
                    return false;
                }
                i += 1;
            }
            true
        }
    }
    pub static mut LOG: [Ev; 8] = [Ev::Nil; 8];
    pub static mut N: usize = 0;
    pub fn log(e: Ev) {
        unsafe {
            if N < 8 {
                LOG[N] = e;
            }
            N += 1;
        }
    }
    pub fn reset() {
        unsafe {
            N = 0;
            LOG = [Ev::Nil; 8];
        }
    }
    pub fn n() -> usize {
        unsafe { N }
    }
    pub fn at(i: usize) -> Ev {
        unsafe { LOG[i] }
    }
    fn first(b: &[u8]) -> u8 {
        if b.is_empty() {
            0
        } else {
            b[0]
        }
    }

    #[derive(Debug)]
    pub struct E;
    impl std::fmt::Display for E {
        fn fmt(&self, _: &mut std::fmt::Formatter<'_>) -> std::fmt::Result {
            Ok(())
        }
    }
    impl std::error::Error for E {}
    impl serde::ser::Error for E {
        fn custom<T: std::fmt::Display>(_: T) -> Self {
            E
        }
    }

    // ---- the behaviour under test: value hooks and (distinct) key hooks, both forward afterwards ----------
    pub enum VB {}
    pub enum KB {}
    impl Behavior for VB {
        type KeyBehavior = KB;
        fn serialize_bool<S: Serializer>(ser: S, v: bool) -> Result<S::Ok, S::Error> {
            log(Ev::HookBool(v));
            ser.serialize_bool(v)
        }
        fn serialize_f32<S: Serializer>(ser: S, v: f32) -> Result<S::Ok, S::Error> {
            log(Ev::HookF32(v.to_bits()));
            ser.serialize_f32(v)
        }
        fn serialize_f64<S: Serializer>(ser: S, v: f64) -> Result<S::Ok, S::Error> {
            log(Ev::HookF64(v.to_bits()));
            ser.serialize_f64(v)
        }
        fn serialize_bytes<S: Serializer>(ser: S, v: &[u8]) -> Result<S::Ok, S::Error> {
            log(Ev::HookBytes(v.len()));
            ser.serialize_bytes(v)
        }
    }
    impl Behavior for KB {
        type KeyBehavior = KB;
        fn serialize_bool<S: Serializer>(ser: S, v: bool) -> Result<S::Ok, S::Error> {
            log(Ev::KeyHookBool(v));
            ser.serialize_bool(v)
        }
        fn serialize_f32<S: Serializer>(ser: S, v: f32) -> Result<S::Ok, S::Error> {
            log(Ev::KeyHookF32(v.to_bits()));
            ser.serialize_f32(v)
        }
        fn serialize_f64<S: Serializer>(ser: S, v: f64) -> Result<S::Ok, S::Error> {
            log(Ev::KeyHookF64(v.to_bits()));
            ser.serialize_f64(v)
        }
        fn serialize_bytes<S: Serializer>(ser: S, v: &[u8]) -> Result<S::Ok, S::Error> {
            log(Ev::KeyHookBytes(v.len()));
            ser.serialize_bytes(v)
        }
    }

    // ---- instrumented inner serializer: logs every call, serializes nested values into itself ---------------
    pub struct Sink;
    pub struct Comp;
    /// what the instrumented inner serializer reports from is_human_readable()
    pub static mut HUMAN: bool = true;
    impl Serializer for Sink {
        type Ok = ();
        type Error = E;
        type SerializeSeq = Comp;
        type SerializeTuple = Comp;
        type SerializeTupleStruct = Comp;
        type SerializeTupleVariant = Comp;
        type SerializeMap = Comp;
        type SerializeStruct = Comp;
        type SerializeStructVariant = Comp;
        fn serialize_bool(self, v: bool) -> Result<(), E> { log(Ev::Bool(v)); Ok(()) }
        fn serialize_i8(self, v: i8) -> Result<(), E> { log(Ev::I8(v)); Ok(()) }
        fn serialize_i16(self, v: i16) -> Result<(), E> { log(Ev::I16(v)); Ok(()) }
        fn serialize_i32(self, v: i32) -> Result<(), E> { log(Ev::I32(v)); Ok(()) }
        fn serialize_i64(self, v: i64) -> Result<(), E> { log(Ev::I64(v)); Ok(()) }
        fn serialize_i128(self, v: i128) -> Result<(), E> { log(Ev::I128(v)); Ok(()) }
        fn serialize_u8(self, v: u8) -> Result<(), E> { log(Ev::U8(v)); Ok(()) }
        fn serialize_u16(self, v: u16) -> Result<(), E> { log(Ev::U16(v)); Ok(()) }
        fn serialize_u32(self, v: u32) -> Result<(), E> { log(Ev::U32(v)); Ok(()) }
        fn serialize_u64(self, v: u64) -> Result<(), E> { log(Ev::U64(v)); Ok(()) }
        fn serialize_u128(self, v: u128) -> Result<(), E> { log(Ev::U128(v)); Ok(()) }
        fn serialize_f32(self, v: f32) -> Result<(), E> { log(Ev::F32(v.to_bits())); Ok(()) }
        fn serialize_f64(self, v: f64) -> Result<(), E> { log(Ev::F64(v.to_bits())); Ok(()) }
        fn serialize_char(self, v: char) -> Result<(), E> { log(Ev::Char(v)); Ok(()) }
        fn serialize_str(self, v: &str) -> Result<(), E> {
            log(Ev::Str(v.len(), first(v.as_bytes())));
            unsafe {
                STRLEN = v.len();
                let b = v.as_bytes();
                let mut i = 0;
                while i < b.len() && i < 12 {
                    STRBUF[i] = b[i];
                    i += 1;
                }
            }
            Ok(())
        }
        fn collect_str<T: ?Sized + std::fmt::Display>(self, v: &T) -> Result<(), E> {
            let tn = std::any::type_name::<T>();
            if tn == "f64" && std::mem::size_of_val(v) == 8 {
                let x = unsafe { *(v as *const T as *const f64) };
                log(Ev::CollectF64(x.to_bits()));
            } else if tn == "f32" && std::mem::size_of_val(v) == 4 {
                let x = unsafe { *(v as *const T as *const f32) };
                log(Ev::CollectF32(x.to_bits()));
            } else if tn == "bool" && std::mem::size_of_val(v) == 1 {
                // Display of a bool is exactly "true" / "false": equivalent to serialize_str of that literal
                let x = unsafe { *(v as *const T as *const bool) };
                return Sink.serialize_str(if x { "true" } else { "false" });
            } else if tn.starts_with("base64::display::Base64Display") {
                log(Ev::CollectBase64);
            } else {
                log(Ev::CollectOther);
            }
            Ok(())
        }
        fn serialize_bytes(self, v: &[u8]) -> Result<(), E> { log(Ev::Bytes(v.len(), first(v))); Ok(()) }
        fn serialize_none(self) -> Result<(), E> { log(Ev::None_); Ok(()) }
        fn serialize_some<T: ?Sized + Serialize>(self, v: &T) -> Result<(), E> { log(Ev::Some_); v.serialize(Sink) }
        fn serialize_unit(self) -> Result<(), E> { log(Ev::Unit); Ok(()) }
        fn serialize_unit_struct(self, name: &'static str) -> Result<(), E> { log(Ev::UnitStruct(name.len())); Ok(()) }
        fn serialize_unit_variant(self, name: &'static str, i: u32, variant: &'static str) -> Result<(), E> { log(Ev::UnitVariant(i, name.len(), variant.len())); Ok(()) }
        fn serialize_newtype_struct<T: ?Sized + Serialize>(self, name: &'static str, v: &T) -> Result<(), E> { log(Ev::NewtypeStruct(name.len())); v.serialize(Sink) }
        fn serialize_newtype_variant<T: ?Sized + Serialize>(self, name: &'static str, i: u32, variant: &'static str, v: &T) -> Result<(), E> { log(Ev::NewtypeVariant(i, name.len(), variant.len())); v.serialize(Sink) }
        fn serialize_seq(self, len: Option<usize>) -> Result<Comp, E> { log(Ev::Seq(len)); Ok(Comp) }
        fn serialize_tuple(self, len: usize) -> Result<Comp, E> { log(Ev::Tuple(len)); Ok(Comp) }
        fn serialize_tuple_struct(self, name: &'static str, len: usize) -> Result<Comp, E> { log(Ev::TupleStruct(name.len(), len)); Ok(Comp) }
        fn serialize_tuple_variant(self, name: &'static str, i: u32, variant: &'static str, len: usize) -> Result<Comp, E> { log(Ev::TupleVariant(i, name.len(), variant.len(), len)); Ok(Comp) }
        fn serialize_map(self, len: Option<usize>) -> Result<Comp, E> { log(Ev::Map(len)); Ok(Comp) }
        fn serialize_struct(self, name: &'static str, len: usize) -> Result<Comp, E> { log(Ev::Struct(name.len(), len)); Ok(Comp) }
        fn serialize_struct_variant(self, name: &'static str, i: u32, variant: &'static str, len: usize) -> Result<Comp, E> { log(Ev::StructVariant(i, name.len(), variant.len(), len)); Ok(Comp) }
        fn is_human_readable(&self) -> bool { unsafe { HUMAN } }
    }
    impl SerializeSeq for Comp {
        type Ok = ();
        type Error = E;
        fn serialize_element<T: ?Sized + Serialize>(&mut self, v: &T) -> Result<(), E> { log(Ev::Elem); v.serialize(Sink) }
        fn end(self) -> Result<(), E> { log(Ev::End); Ok(()) }
    }
    impl SerializeTuple for Comp {
        type Ok = ();
        type Error = E;
        fn serialize_element<T: ?Sized + Serialize>(&mut self, v: &T) -> Result<(), E> { log(Ev::Elem); v.serialize(Sink) }
        fn end(self) -> Result<(), E> { log(Ev::End); Ok(()) }
    }
    impl SerializeTupleStruct for Comp {
        type Ok = ();
        type Error = E;
        fn serialize_field<T: ?Sized + Serialize>(&mut self, v: &T) -> Result<(), E> { log(Ev::Elem); v.serialize(Sink) }
        fn end(self) -> Result<(), E> { log(Ev::End); Ok(()) }
    }
    impl SerializeTupleVariant for Comp {
        type Ok = ();
        type Error = E;
        fn serialize_field<T: ?Sized + Serialize>(&mut self, v: &T) -> Result<(), E> { log(Ev::Elem); v.serialize(Sink) }
        fn end(self) -> Result<(), E> { log(Ev::End); Ok(()) }
    }
    impl SerializeMap for Comp {
        type Ok = ();
        type Error = E;
        fn serialize_key<T: ?Sized + Serialize>(&mut self, v: &T) -> Result<(), E> { log(Ev::Key); v.serialize(Sink) }
        fn serialize_value<T: ?Sized + Serialize>(&mut self, v: &T) -> Result<(), E> { log(Ev::Value); v.serialize(Sink) }
        fn end(self) -> Result<(), E> { log(Ev::End); Ok(()) }
    }
    impl SerializeStruct for Comp {
        type Ok = ();
        type Error = E;
        fn serialize_field<T: ?Sized + Serialize>(&mut self, key: &'static str, v: &T) -> Result<(), E> { log(Ev::Field(key.len())); v.serialize(Sink) }
        fn skip_field(&mut self, key: &'static str) -> Result<(), E> { log(Ev::Skip(key.len())); Ok(()) }
        fn end(self) -> Result<(), E> { log(Ev::End); Ok(()) }
    }
    impl SerializeStructVariant for Comp {
        type Ok = ();
        type Error = E;
        fn serialize_field<T: ?Sized + Serialize>(&mut self, key: &'static str, v: &T) -> Result<(), E> { log(Ev::Field(key.len())); v.serialize(Sink) }
        fn skip_field(&mut self, key: &'static str) -> Result<(), E> { log(Ev::Skip(key.len())); Ok(()) }
        fn end(self) -> Result<(), E> { log(Ev::End); Ok(()) }
    }

    fn o() -> Override<Sink, VB> {
        reset();
        Override::<_, VB>::new(Sink)
    }

    // ---- A. scalars that are not hooked are forwarded unchanged; hooked ones go through B first --------------
    macro_rules! forwarded {
        ($name:ident, $method:ident, $t:ty, $ev:expr) => {
            #[kani::proof]
            fn $name() {
                let v: $t = kani::any();
                assert!(o().$method(v).is_ok());
                assert!(n() == 1 && at(0) == $ev(v));
                kani::cover!(true);
            }
        };
    }
    forwarded!(fwd_i8, serialize_i8, i8, Ev::I8);
    forwarded!(fwd_i16, serialize_i16, i16, Ev::I16);
    forwarded!(fwd_i32, serialize_i32, i32, Ev::I32);
    forwarded!(fwd_i64, serialize_i64, i64, Ev::I64);
    forwarded!(fwd_i128, serialize_i128, i128, Ev::I128);
    forwarded!(fwd_u8, serialize_u8, u8, Ev::U8);
    forwarded!(fwd_u16, serialize_u16, u16, Ev::U16);
    forwarded!(fwd_u32, serialize_u32, u32, Ev::U32);
    forwarded!(fwd_u64, serialize_u64, u64, Ev::U64);
    forwarded!(fwd_u128, serialize_u128, u128, Ev::U128);
    forwarded!(fwd_char, serialize_char, char, Ev::Char);

    #[kani::proof]
    fn fwd_str_none_unit_names() {
        assert!(o().serialize_str("ab").is_ok());
        assert!(n() == 1 && at(0) == Ev::Str(2, b'a'));
        assert!(o().serialize_none().is_ok());
        assert!(n() == 1 && at(0) == Ev::None_);
        assert!(o().serialize_unit().is_ok());
        assert!(n() == 1 && at(0) == Ev::Unit);
        assert!(o().serialize_unit_struct("Name").is_ok());
        assert!(n() == 1 && at(0) == Ev::UnitStruct(4));
        let i: u32 = kani::any();
        assert!(o().serialize_unit_variant("Name", i, "Var").is_ok());
        assert!(n() == 1 && at(0) == Ev::UnitVariant(i, 4, 3));
        kani::cover!(true);
    }

    #[kani::proof]
    fn hooked_scalars_go_through_behavior() {
        let b: bool = kani::any();
        assert!(o().serialize_bool(b).is_ok());
        assert!(n() == 2 && at(0) == Ev::HookBool(b) && at(1) == Ev::Bool(b));
        let f: f32 = kani::any();
        assert!(o().serialize_f32(f).is_ok());
        assert!(n() == 2 && at(0) == Ev::HookF32(f.to_bits()) && at(1) == Ev::F32(f.to_bits()));
        let d: f64 = kani::any();
        assert!(o().serialize_f64(d).is_ok());
        assert!(n() == 2 && at(0) == Ev::HookF64(d.to_bits()) && at(1) == Ev::F64(d.to_bits()));
        let bytes: [u8; 2] = kani::any();
        assert!(o().serialize_bytes(&bytes).is_ok());
        assert!(n() == 2 && at(0) == Ev::HookBytes(2) && at(1) == Ev::Bytes(2, bytes[0]));
        kani::cover!(true);
    }

    // ---- B. single-value wrappers re-wrap the nested value with B ------------------------------------------------
    #[kani::proof]
    fn some_rewraps() {
        let d: f64 = kani::any();
        assert!(o().serialize_some(&d).is_ok());
        assert!(n() == 3 && at(0) == Ev::Some_ && at(1) == Ev::HookF64(d.to_bits()) && at(2) == Ev::F64(d.to_bits()));
        // two levels
        assert!(o().serialize_some(&Some(d)).is_ok());
        assert!(n() == 4 && at(0) == Ev::Some_ && at(1) == Ev::Some_ && at(2) == Ev::HookF64(d.to_bits()));
        kani::cover!(true);
    }

    #[kani::proof]
    fn newtype_struct_rewraps() {
        let d: f64 = kani::any();
        assert!(o().serialize_newtype_struct("Nm", &d).is_ok());
        assert!(n() == 3 && at(0) == Ev::NewtypeStruct(2) && at(1) == Ev::HookF64(d.to_bits()) && at(2) == Ev::F64(d.to_bits()));
        kani::cover!(true);
    }

    #[kani::proof]
    fn newtype_variant_rewraps() {
        let d: f64 = kani::any();
        let i: u32 = kani::any();
        assert!(o().serialize_newtype_variant("Nm", i, "Var", &d).is_ok());
        assert!(n() == 3 && at(0) == Ev::NewtypeVariant(i, 2, 3) && at(1) == Ev::HookF64(d.to_bits()) && at(2) == Ev::F64(d.to_bits()));
        kani::cover!(true);
    }

    #[kani::proof]
    fn serialize_for_override_wraps_the_serializer() {
        let d: f64 = kani::any();
        reset();
        assert!(Serialize::serialize(&Override::<_, VB>::new(&d), Sink).is_ok());
        assert!(n() == 2 && at(0) == Ev::HookF64(d.to_bits()) && at(1) == Ev::F64(d.to_bits()));
        let b: bool = kani::any();
        reset();
        assert!(Serialize::serialize(&Override::<_, KB>::new(&b), Sink).is_ok());
        assert!(n() == 2 && at(0) == Ev::KeyHookBool(b) && at(1) == Ev::Bool(b));
        kani::cover!(true);
    }

    // ---- C. compound constructors forward their arguments and return a wrapped compound serializer -------------
    #[kani::proof]
    fn seq_frame() {
        let len: Option<usize> = kani::any();
        let d: f64 = kani::any();
        let mut s = o().serialize_seq(len).unwrap();
        assert!(n() == 1 && at(0) == Ev::Seq(len));
        reset();
        assert!(SerializeSeq::serialize_element(&mut s, &d).is_ok());
        assert!(n() == 3 && at(0) == Ev::Elem && at(1) == Ev::HookF64(d.to_bits()) && at(2) == Ev::F64(d.to_bits()));
        reset();
        assert!(SerializeSeq::end(s).is_ok());
        assert!(n() == 1 && at(0) == Ev::End);
        kani::cover!(true);
    }

    #[kani::proof]
    fn tuple_frame() {
        let len: usize = kani::any();
        let d: f64 = kani::any();
        let mut s = o().serialize_tuple(len).unwrap();
        assert!(n() == 1 && at(0) == Ev::Tuple(len));
        reset();
        assert!(SerializeTuple::serialize_element(&mut s, &d).is_ok());
        assert!(n() == 3 && at(0) == Ev::Elem && at(1) == Ev::HookF64(d.to_bits()) && at(2) == Ev::F64(d.to_bits()));
        reset();
        assert!(SerializeTuple::end(s).is_ok());
        assert!(n() == 1 && at(0) == Ev::End);
        kani::cover!(true);
    }

    #[kani::proof]
    fn tuple_struct_frame() {
        let len: usize = kani::any();
        let d: f64 = kani::any();
        let mut s = o().serialize_tuple_struct("Nm", len).unwrap();
        assert!(n() == 1 && at(0) == Ev::TupleStruct(2, len));
        reset();
        assert!(SerializeTupleStruct::serialize_field(&mut s, &d).is_ok());
        assert!(n() == 3 && at(0) == Ev::Elem && at(1) == Ev::HookF64(d.to_bits()) && at(2) == Ev::F64(d.to_bits()));
        reset();
        assert!(SerializeTupleStruct::end(s).is_ok());
        assert!(n() == 1 && at(0) == Ev::End);
        kani::cover!(true);
    }

    #[kani::proof]
    fn tuple_variant_frame() {
        let len: usize = kani::any();
        let i: u32 = kani::any();
        let d: f64 = kani::any();
        let mut s = o().serialize_tuple_variant("Nm", i, "Var", len).unwrap();
        assert!(n() == 1 && at(0) == Ev::TupleVariant(i, 2, 3, len));
        reset();
        assert!(SerializeTupleVariant::serialize_field(&mut s, &d).is_ok());
        assert!(n() == 3 && at(0) == Ev::Elem && at(1) == Ev::HookF64(d.to_bits()) && at(2) == Ev::F64(d.to_bits()));
        reset();
        assert!(SerializeTupleVariant::end(s).is_ok());
        assert!(n() == 1 && at(0) == Ev::End);
        kani::cover!(true);
    }

    #[kani::proof]
    fn map_frame_keys_get_key_behavior() {
        let len: Option<usize> = kani::any();
        let b: bool = kani::any();
        let d: f64 = kani::any();
        let mut m = o().serialize_map(len).unwrap();
        assert!(n() == 1 && at(0) == Ev::Map(len));
        // a key gets KeyBehavior ...
        reset();
        assert!(SerializeMap::serialize_key(&mut m, &b).is_ok());
        assert!(n() == 3 && at(0) == Ev::Key && at(1) == Ev::KeyHookBool(b) && at(2) == Ev::Bool(b));
        reset();
        assert!(SerializeMap::serialize_key(&mut m, &d).is_ok());
        assert!(n() == 3 && at(0) == Ev::Key && at(1) == Ev::KeyHookF64(d.to_bits()) && at(2) == Ev::F64(d.to_bits()));
        // ... a value does not: it gets the value behaviour
        reset();
        assert!(SerializeMap::serialize_value(&mut m, &d).is_ok());
        assert!(n() == 3 && at(0) == Ev::Value && at(1) == Ev::HookF64(d.to_bits()) && at(2) == Ev::F64(d.to_bits()));
        reset();
        assert!(SerializeMap::serialize_value(&mut m, &b).is_ok());
        assert!(n() == 3 && at(0) == Ev::Value && at(1) == Ev::HookBool(b) && at(2) == Ev::Bool(b));
        reset();
        assert!(SerializeMap::end(m).is_ok());
        assert!(n() == 1 && at(0) == Ev::End);
        kani::cover!(true);
    }

    #[kani::proof]
    fn map_key_behavior_is_sticky_below_a_key() {
        // a key that is itself a wrapper (newtype alias of double, optional) keeps key treatment inside
        let d: f64 = kani::any();
        let mut m = o().serialize_map(None).unwrap();
        reset();
        assert!(SerializeMap::serialize_key(&mut m, &Some(d)).is_ok());
        assert!(n() == 4 && at(0) == Ev::Key && at(1) == Ev::Some_ && at(2) == Ev::KeyHookF64(d.to_bits()));
        // and a map nested in a value starts over: its keys get key treatment, its values value treatment
        kani::cover!(true);
    }

    #[kani::proof]
    fn struct_frame() {
        let len: usize = kani::any();
        let d: f64 = kani::any();
        let mut s = o().serialize_struct("Nm", len).unwrap();
        assert!(n() == 1 && at(0) == Ev::Struct(2, len));
        reset();
        assert!(SerializeStruct::serialize_field(&mut s, "fld", &d).is_ok());
        assert!(n() == 3 && at(0) == Ev::Field(3) && at(1) == Ev::HookF64(d.to_bits()) && at(2) == Ev::F64(d.to_bits()));
        reset();
        assert!(SerializeStruct::skip_field(&mut s, "skip").is_ok());
        assert!(n() == 1 && at(0) == Ev::Skip(4));
        reset();
        assert!(SerializeStruct::end(s).is_ok());
        assert!(n() == 1 && at(0) == Ev::End);
        kani::cover!(true);
    }

    #[kani::proof]
    fn struct_variant_frame() {
        let len: usize = kani::any();
        let i: u32 = kani::any();
        let d: f64 = kani::any();
        let mut s = o().serialize_struct_variant("Nm", i, "Var", len).unwrap();
        assert!(n() == 1 && at(0) == Ev::StructVariant(i, 2, 3, len));
        reset();
        assert!(SerializeStructVariant::serialize_field(&mut s, "fld", &d).is_ok());
        assert!(n() == 3 && at(0) == Ev::Field(3) && at(1) == Ev::HookF64(d.to_bits()) && at(2) == Ev::F64(d.to_bits()));
        reset();
        assert!(SerializeStructVariant::skip_field(&mut s, "skip").is_ok());
        assert!(n() == 1 && at(0) == Ev::Skip(4));
        reset();
        assert!(SerializeStructVariant::end(s).is_ok());
        assert!(n() == 1 && at(0) == Ev::End);
        kani::cover!(true);
    }

    // The wrapper must be transparent for the human-readable flag: types such as uuid choose their
    // representation from it, and serializer and deserializer (de::Override forwards it) have to agree at
    // every nesting level for the round trip to hold (Smile reports false).
    #[kani::proof]
    fn is_human_readable_forwarded() {
        let h: bool = kani::any();
        unsafe { HUMAN = h };
        assert!(Serializer::is_human_readable(&Override::<_, VB>::new(Sink)) == h);
        kani::cover!(h);
        kani::cover!(!h);
    }

    // ---- D. default hooks of trait Behavior are the identity ----------------------------------------------------
    pub enum Plain_ {}
    impl Behavior for Plain_ {
        type KeyBehavior = Plain_;
    }
    #[kani::proof]
    fn default_behavior_is_identity() {
        let b: bool = kani::any();
        reset();
        assert!(Override::<_, Plain_>::new(Sink).serialize_bool(b).is_ok());
        assert!(n() == 1 && at(0) == Ev::Bool(b));
        let f: f32 = kani::any();
        reset();
        assert!(Override::<_, Plain_>::new(Sink).serialize_f32(f).is_ok());
        assert!(n() == 1 && at(0) == Ev::F32(f.to_bits()));
        let d: f64 = kani::any();
        reset();
        assert!(Override::<_, Plain_>::new(Sink).serialize_f64(d).is_ok());
        assert!(n() == 1 && at(0) == Ev::F64(d.to_bits()));
        let bytes: [u8; 2] = kani::any();
        reset();
        assert!(Override::<_, Plain_>::new(Sink).serialize_bytes(&bytes).is_ok());
        assert!(n() == 1 && at(0) == Ev::Bytes(2, bytes[0]));
        kani::cover!(true);
    }

    // ---- E. the entry-point macro impl_serialize_body! instantiated on an instrumented inner serializer ---------
    // (json::Serializer and smile::Serializer are exactly this macro applied to serde_json's / serde_smile's
    // serializer with their ValueBehavior; the obligations below hold for the macro text, whatever the inner type)
    use serde::ser;
    // the macro names `ValueBehavior` literally in its associated types
    pub use self::VB as ValueBehavior;

    pub struct SinkM;
    macro_rules! fwd {
        ($($name:ident = $t:ty,)*) => {
            $(fn $name(self, v: $t) -> Result<(), E> { Sink.$name(v) })*
        };
    }
    impl<'a> ser::Serializer for &'a mut SinkM {
        type Ok = ();
        type Error = E;
        type SerializeSeq = Comp;
        type SerializeTuple = Comp;
        type SerializeTupleStruct = Comp;
        type SerializeTupleVariant = Comp;
        type SerializeMap = Comp;
        type SerializeStruct = Comp;
        type SerializeStructVariant = Comp;
        fwd! {
            serialize_bool = bool, serialize_i8 = i8, serialize_i16 = i16, serialize_i32 = i32, serialize_i64 = i64,
            serialize_i128 = i128, serialize_u8 = u8, serialize_u16 = u16, serialize_u32 = u32, serialize_u64 = u64,
            serialize_u128 = u128, serialize_f32 = f32, serialize_f64 = f64, serialize_char = char, serialize_str = &str,
            serialize_bytes = &[u8],
        }
        fn serialize_none(self) -> Result<(), E> { Sink.serialize_none() }
        fn serialize_some<T: ?Sized + Serialize>(self, v: &T) -> Result<(), E> { Sink.serialize_some(v) }
        fn serialize_unit(self) -> Result<(), E> { Sink.serialize_unit() }
        fn serialize_unit_struct(self, n: &'static str) -> Result<(), E> { Sink.serialize_unit_struct(n) }
        fn serialize_unit_variant(self, n: &'static str, i: u32, v: &'static str) -> Result<(), E> { Sink.serialize_unit_variant(n, i, v) }
        fn serialize_newtype_struct<T: ?Sized + Serialize>(self, n: &'static str, v: &T) -> Result<(), E> { Sink.serialize_newtype_struct(n, v) }
        fn serialize_newtype_variant<T: ?Sized + Serialize>(self, n: &'static str, i: u32, va: &'static str, v: &T) -> Result<(), E> { Sink.serialize_newtype_variant(n, i, va, v) }
        fn serialize_seq(self, len: Option<usize>) -> Result<Comp, E> { Sink.serialize_seq(len) }
        fn serialize_tuple(self, len: usize) -> Result<Comp, E> { Sink.serialize_tuple(len) }
        fn serialize_tuple_struct(self, n: &'static str, len: usize) -> Result<Comp, E> { Sink.serialize_tuple_struct(n, len) }
        fn serialize_tuple_variant(self, n: &'static str, i: u32, va: &'static str, len: usize) -> Result<Comp, E> { Sink.serialize_tuple_variant(n, i, va, len) }
        fn serialize_map(self, len: Option<usize>) -> Result<Comp, E> { Sink.serialize_map(len) }
        fn serialize_struct(self, n: &'static str, len: usize) -> Result<Comp, E> { Sink.serialize_struct(n, len) }
        fn serialize_struct_variant(self, n: &'static str, i: u32, va: &'static str, len: usize) -> Result<Comp, E> { Sink.serialize_struct_variant(n, i, va, len) }
    }

    pub struct Entry(pub SinkM);
    impl<'a> ser::Serializer for &'a mut Entry {
        impl_serialize_body!(&'a mut SinkM, ValueBehavior);
    }

    fn hook_then_raw(d: f64, i: usize) -> bool {
        at(i) == Ev::HookF64(d.to_bits()) && at(i + 1) == Ev::F64(d.to_bits())
    }

    #[kani::proof]
    fn entry_scalars() {
        let mut e = Entry(SinkM);
        let b: bool = kani::any();
        reset();
        assert!(ser::Serializer::serialize_bool(&mut e, b).is_ok());
        assert!(n() == 2 && at(0) == Ev::HookBool(b) && at(1) == Ev::Bool(b));
        let f: f32 = kani::any();
        reset();
        assert!(ser::Serializer::serialize_f32(&mut e, f).is_ok());
        assert!(n() == 2 && at(0) == Ev::HookF32(f.to_bits()) && at(1) == Ev::F32(f.to_bits()));
        let d: f64 = kani::any();
        reset();
        assert!(ser::Serializer::serialize_f64(&mut e, d).is_ok());
        assert!(n() == 2 && hook_then_raw(d, 0));
        let by: [u8; 2] = kani::any();
        reset();
        assert!(ser::Serializer::serialize_bytes(&mut e, &by).is_ok());
        assert!(n() == 2 && at(0) == Ev::HookBytes(2) && at(1) == Ev::Bytes(2, by[0]));
        kani::cover!(true);
    }

    macro_rules! entry_forward {
        ($name:ident, $method:ident, $t:ty, $ev:expr) => {
            #[kani::proof]
            fn $name() {
                let mut e = Entry(SinkM);
                let v: $t = kani::any();
                reset();
                assert!(ser::Serializer::$method(&mut e, v).is_ok());
                assert!(n() == 1 && at(0) == $ev(v));
                kani::cover!(true);
            }
        };
    }
    entry_forward!(entry_i8, serialize_i8, i8, Ev::I8);
    entry_forward!(entry_i16, serialize_i16, i16, Ev::I16);
    entry_forward!(entry_i32, serialize_i32, i32, Ev::I32);
    entry_forward!(entry_i64, serialize_i64, i64, Ev::I64);
    entry_forward!(entry_i128, serialize_i128, i128, Ev::I128);
    entry_forward!(entry_u8, serialize_u8, u8, Ev::U8);
    entry_forward!(entry_u16, serialize_u16, u16, Ev::U16);
    entry_forward!(entry_u32, serialize_u32, u32, Ev::U32);
    entry_forward!(entry_u64, serialize_u64, u64, Ev::U64);
    entry_forward!(entry_u128, serialize_u128, u128, Ev::U128);
    entry_forward!(entry_char, serialize_char, char, Ev::Char);

    #[kani::proof]
    fn entry_str_none_unit_names() {
        let mut e = Entry(SinkM);
        reset();
        assert!(ser::Serializer::serialize_str(&mut e, "ab").is_ok());
        assert!(n() == 1 && at(0) == Ev::Str(2, b'a'));
        reset();
        assert!(ser::Serializer::serialize_none(&mut e).is_ok());
        assert!(n() == 1 && at(0) == Ev::None_);
        reset();
        assert!(ser::Serializer::serialize_unit(&mut e).is_ok());
        assert!(n() == 1 && at(0) == Ev::Unit);
        reset();
        assert!(ser::Serializer::serialize_unit_struct(&mut e, "Name").is_ok());
        assert!(n() == 1 && at(0) == Ev::UnitStruct(4));
        let i: u32 = kani::any();
        reset();
        assert!(ser::Serializer::serialize_unit_variant(&mut e, "Name", i, "Var").is_ok());
        assert!(n() == 1 && at(0) == Ev::UnitVariant(i, 4, 3));
        kani::cover!(true);
    }

    #[kani::proof]
    fn entry_single_value_wrappers() {
        let mut e = Entry(SinkM);
        let d: f64 = kani::any();
        let i: u32 = kani::any();
        reset();
        assert!(ser::Serializer::serialize_some(&mut e, &d).is_ok());
        assert!(n() == 3 && at(0) == Ev::Some_ && hook_then_raw(d, 1));
        reset();
        assert!(ser::Serializer::serialize_newtype_struct(&mut e, "Nm", &d).is_ok());
        assert!(n() == 3 && at(0) == Ev::NewtypeStruct(2) && hook_then_raw(d, 1));
        reset();
        assert!(ser::Serializer::serialize_newtype_variant(&mut e, "Nm", i, "Var", &d).is_ok());
        assert!(n() == 3 && at(0) == Ev::NewtypeVariant(i, 2, 3) && hook_then_raw(d, 1));
        kani::cover!(true);
    }

    #[kani::proof]
    fn entry_sequences() {
        let mut e = Entry(SinkM);
        let d: f64 = kani::any();
        let len: usize = kani::any();
        let olen: Option<usize> = kani::any();
        let i: u32 = kani::any();
        reset();
        let mut s = ser::Serializer::serialize_seq(&mut e, olen).unwrap();
        assert!(n() == 1 && at(0) == Ev::Seq(olen));
        reset();
        assert!(SerializeSeq::serialize_element(&mut s, &d).is_ok());
        assert!(n() == 3 && at(0) == Ev::Elem && hook_then_raw(d, 1));
        reset();
        let mut s = ser::Serializer::serialize_tuple(&mut e, len).unwrap();
        assert!(n() == 1 && at(0) == Ev::Tuple(len));
        reset();
        assert!(SerializeTuple::serialize_element(&mut s, &d).is_ok());
        assert!(n() == 3 && at(0) == Ev::Elem && hook_then_raw(d, 1));
        reset();
        let mut s = ser::Serializer::serialize_tuple_struct(&mut e, "Nm", len).unwrap();
        assert!(n() == 1 && at(0) == Ev::TupleStruct(2, len));
        reset();
        assert!(SerializeTupleStruct::serialize_field(&mut s, &d).is_ok());
        assert!(n() == 3 && at(0) == Ev::Elem && hook_then_raw(d, 1));
        reset();
        let mut s = ser::Serializer::serialize_tuple_variant(&mut e, "Nm", i, "Var", len).unwrap();
        assert!(n() == 1 && at(0) == Ev::TupleVariant(i, 2, 3, len));
        reset();
        assert!(SerializeTupleVariant::serialize_field(&mut s, &d).is_ok());
        assert!(n() == 3 && at(0) == Ev::Elem && hook_then_raw(d, 1));
        kani::cover!(true);
    }

    #[kani::proof]
    fn entry_maps_and_structs() {
        let mut e = Entry(SinkM);
        let d: f64 = kani::any();
        let b: bool = kani::any();
        let len: usize = kani::any();
        let olen: Option<usize> = kani::any();
        let i: u32 = kani::any();
        reset();
        let mut m = ser::Serializer::serialize_map(&mut e, olen).unwrap();
        assert!(n() == 1 && at(0) == Ev::Map(olen));
        reset();
        assert!(SerializeMap::serialize_key(&mut m, &b).is_ok());
        assert!(n() == 3 && at(0) == Ev::Key && at(1) == Ev::KeyHookBool(b) && at(2) == Ev::Bool(b));
        reset();
        assert!(SerializeMap::serialize_value(&mut m, &d).is_ok());
        assert!(n() == 3 && at(0) == Ev::Value && hook_then_raw(d, 1));
        reset();
        let mut s = ser::Serializer::serialize_struct(&mut e, "Nm", len).unwrap();
        assert!(n() == 1 && at(0) == Ev::Struct(2, len));
        reset();
        assert!(SerializeStruct::serialize_field(&mut s, "fld", &d).is_ok());
        assert!(n() == 3 && at(0) == Ev::Field(3) && hook_then_raw(d, 1));
        reset();
        let mut s = ser::Serializer::serialize_struct_variant(&mut e, "Nm", i, "Var", len).unwrap();
        assert!(n() == 1 && at(0) == Ev::StructVariant(i, 2, 3, len));
        reset();
        assert!(SerializeStructVariant::serialize_field(&mut s, "fld", &d).is_ok());
        assert!(n() == 3 && at(0) == Ev::Field(3) && hook_then_raw(d, 1));
        kani::cover!(true);
    }
}
