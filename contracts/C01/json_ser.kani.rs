// Kani harness module for C01 (Conjure JSON behaviours, serializer side), appended to a scratch copy of
// conjure-serde/src/json/ser.rs. Uses the instrumented sink of crate::ser::verif_c01.
#[cfg(kani)]
mod verif_c01 {
    use super::*;
    use crate::ser::verif_c01::{at, last_str_is, n, reset, Ev, Sink};
    use std::marker::PhantomData;

    // type-level wiring (checked by compilation): JSON values switch to the JSON key behaviour below a key,
    // and the key behaviour is sticky
    #[allow(dead_code)]
    fn wiring() {
        let _: PhantomData<<ValueBehavior as Behavior>::KeyBehavior> = PhantomData::<KeyBehavior>;
        let _: PhantomData<<KeyBehavior as Behavior>::KeyBehavior> = PhantomData::<KeyBehavior>;
    }

    macro_rules! float_value_hook {
        ($name:ident, $t:ident, $method:ident, $ev:expr) => {
            #[kani::proof]
            #[kani::unwind(14)]
            fn $name() {
                let v: $t = kani::any();
                reset();
                assert!(<ValueBehavior as Behavior>::$method(Sink, v).is_ok());
                assert!(n() == 1);
                if v.is_nan() {
                    assert!(last_str_is(b"NaN") && matches!(at(0), Ev::Str(..)));
                } else if v == $t::INFINITY {
                    assert!(last_str_is(b"Infinity") && matches!(at(0), Ev::Str(..)));
                } else if v == $t::NEG_INFINITY {
                    assert!(last_str_is(b"-Infinity") && matches!(at(0), Ev::Str(..)));
                } else {
                    // finite values stay native numbers, bit for bit
                    assert!(at(0) == $ev(v.to_bits()));
                }
                kani::cover!(v.is_nan());
                kani::cover!(v == $t::NEG_INFINITY);
                kani::cover!(v.is_finite());
            }
        };
    }
    float_value_hook!(value_f64_hook, f64, serialize_f64, Ev::F64);
    float_value_hook!(value_f32_hook, f32, serialize_f32, Ev::F32);

    macro_rules! float_key_hook {
        ($name:ident, $t:ident, $method:ident, $ev:expr) => {
            #[kani::proof]
            #[kani::unwind(14)]
            fn $name() {
                let v: $t = kani::any();
                reset();
                assert!(<KeyBehavior as Behavior>::$method(Sink, v).is_ok());
                assert!(n() == 1);
                if v.is_nan() {
                    assert!(last_str_is(b"NaN") && matches!(at(0), Ev::Str(..)));
                } else if v == $t::INFINITY {
                    assert!(last_str_is(b"Infinity") && matches!(at(0), Ev::Str(..)));
                } else if v == $t::NEG_INFINITY {
                    assert!(last_str_is(b"-Infinity") && matches!(at(0), Ev::Str(..)));
                } else {
                    // finite keys become the string form of the same number (collect_str of the value itself)
                    assert!(at(0) == $ev(v.to_bits()));
                }
                kani::cover!(v.is_nan());
                kani::cover!(v.is_finite());
            }
        };
    }
    float_key_hook!(key_f64_hook, f64, serialize_f64, Ev::CollectF64);
    float_key_hook!(key_f32_hook, f32, serialize_f32, Ev::CollectF32);

    #[kani::proof]
    #[kani::unwind(14)]
    fn key_bool_hook() {
        let v: bool = kani::any();
        reset();
        assert!(<KeyBehavior as Behavior>::serialize_bool(Sink, v).is_ok());
        assert!(n() == 1 && matches!(at(0), Ev::Str(..)));
        assert!(last_str_is(if v { b"true" } else { b"false" }));
        // in value position booleans stay booleans
        reset();
        assert!(<ValueBehavior as Behavior>::serialize_bool(Sink, v).is_ok());
        assert!(n() == 1 && at(0) == Ev::Bool(v));
        kani::cover!(v);
        kani::cover!(!v);
    }

    #[kani::proof]
    #[kani::unwind(48)]
    fn bytes_hooks_use_base64_display() {
        let b: [u8; 3] = kani::any();
        reset();
        assert!(<ValueBehavior as Behavior>::serialize_bytes(Sink, &b).is_ok());
        assert!(n() == 1 && at(0) == Ev::CollectBase64);
        reset();
        assert!(<KeyBehavior as Behavior>::serialize_bytes(Sink, &b).is_ok());
        assert!(n() == 1 && at(0) == Ev::CollectBase64);
        kani::cover!(true);
    }

    // The text Base64Display renders for a concrete value: standard alphabet ('+' and '/'), padded. A serializer that records
    // what collect_str displays by actually formatting it into a fixed buffer (concrete bytes only).
    pub struct Render;
    pub static mut RBUF: [u8; 8] = [0; 8];
    pub static mut RLEN: usize = 0;
    struct W;
    impl std::fmt::Write for W {
        fn write_str(&mut self, s: &str) -> std::fmt::Result {
            let b = s.as_bytes();
            let mut i = 0;
            while i < b.len() {
                unsafe {
                    if RLEN < 8 {
                        RBUF[RLEN] = b[i];
                    }
                    RLEN += 1;
                }
                i += 1;
            }
            Ok(())
        }
    }
    type ImpR = serde::ser::Impossible<(), crate::ser::verif_c01::E>;
    impl serde::Serializer for Render {
        type Ok = ();
        type Error = crate::ser::verif_c01::E;
        type SerializeSeq = ImpR;
        type SerializeTuple = ImpR;
        type SerializeTupleStruct = ImpR;
        type SerializeTupleVariant = ImpR;
        type SerializeMap = ImpR;
        type SerializeStruct = ImpR;
        type SerializeStructVariant = ImpR;
        fn collect_str<T: ?Sized + std::fmt::Display>(self, v: &T) -> Result<(), Self::Error> {
            unsafe { RLEN = 0 };
            let mut w = W;
            let r = std::fmt::Write::write_fmt(&mut w, format_args!("{}", v));
            if r.is_ok() { Ok(()) } else { Err(crate::ser::verif_c01::E) }
        }
        fn serialize_str(self, v: &str) -> Result<(), Self::Error> {
            unsafe { RLEN = 0 };
            let mut w = W;
            let _ = std::fmt::Write::write_str(&mut w, v);
            Ok(())
        }
        fn serialize_bool(self, _: bool) -> Result<(), Self::Error> { Err(crate::ser::verif_c01::E) }
        fn serialize_i8(self, _: i8) -> Result<(), Self::Error> { Err(crate::ser::verif_c01::E) }
        fn serialize_i16(self, _: i16) -> Result<(), Self::Error> { Err(crate::ser::verif_c01::E) }
        fn serialize_i32(self, _: i32) -> Result<(), Self::Error> { Err(crate::ser::verif_c01::E) }
        fn serialize_i64(self, _: i64) -> Result<(), Self::Error> { Err(crate::ser::verif_c01::E) }
        fn serialize_u8(self, _: u8) -> Result<(), Self::Error> { Err(crate::ser::verif_c01::E) }
        fn serialize_u16(self, _: u16) -> Result<(), Self::Error> { Err(crate::ser::verif_c01::E) }
        fn serialize_u32(self, _: u32) -> Result<(), Self::Error> { Err(crate::ser::verif_c01::E) }
        fn serialize_u64(self, _: u64) -> Result<(), Self::Error> { Err(crate::ser::verif_c01::E) }
        fn serialize_f32(self, _: f32) -> Result<(), Self::Error> { Err(crate::ser::verif_c01::E) }
        fn serialize_f64(self, _: f64) -> Result<(), Self::Error> { Err(crate::ser::verif_c01::E) }
        fn serialize_char(self, _: char) -> Result<(), Self::Error> { Err(crate::ser::verif_c01::E) }
        fn serialize_bytes(self, _: &[u8]) -> Result<(), Self::Error> { Err(crate::ser::verif_c01::E) }
        fn serialize_none(self) -> Result<(), Self::Error> { Err(crate::ser::verif_c01::E) }
        fn serialize_some<T: ?Sized + serde::Serialize>(self, _: &T) -> Result<(), Self::Error> { Err(crate::ser::verif_c01::E) }
        fn serialize_unit(self) -> Result<(), Self::Error> { Err(crate::ser::verif_c01::E) }
        fn serialize_unit_struct(self, _: &'static str) -> Result<(), Self::Error> { Err(crate::ser::verif_c01::E) }
        fn serialize_unit_variant(self, _: &'static str, _: u32, _: &'static str) -> Result<(), Self::Error> { Err(crate::ser::verif_c01::E) }
        fn serialize_newtype_struct<T: ?Sized + serde::Serialize>(self, _: &'static str, _: &T) -> Result<(), Self::Error> { Err(crate::ser::verif_c01::E) }
        fn serialize_newtype_variant<T: ?Sized + serde::Serialize>(self, _: &'static str, _: u32, _: &'static str, _: &T) -> Result<(), Self::Error> { Err(crate::ser::verif_c01::E) }
        fn serialize_seq(self, _: Option<usize>) -> Result<ImpR, Self::Error> { Err(crate::ser::verif_c01::E) }
        fn serialize_tuple(self, _: usize) -> Result<ImpR, Self::Error> { Err(crate::ser::verif_c01::E) }
        fn serialize_tuple_struct(self, _: &'static str, _: usize) -> Result<ImpR, Self::Error> { Err(crate::ser::verif_c01::E) }
        fn serialize_tuple_variant(self, _: &'static str, _: u32, _: &'static str, _: usize) -> Result<ImpR, Self::Error> { Err(crate::ser::verif_c01::E) }
        fn serialize_map(self, _: Option<usize>) -> Result<ImpR, Self::Error> { Err(crate::ser::verif_c01::E) }
        fn serialize_struct(self, _: &'static str, _: usize) -> Result<ImpR, Self::Error> { Err(crate::ser::verif_c01::E) }
        fn serialize_struct_variant(self, _: &'static str, _: u32, _: &'static str, _: usize) -> Result<ImpR, Self::Error> { Err(crate::ser::verif_c01::E) }
    }
    fn rendered_is(lit: &[u8]) -> bool {
        unsafe {
            if RLEN != lit.len() {
                return false;
            }
            let mut i = 0;
            while i < lit.len() && i < 8 {
                if RBUF[i] != lit[i] {
                    return false;
                }
                i += 1;
            }
            true
        }
    }

    #[kani::proof]
    #[kani::unwind(12)]
    fn bytes_render_standard_padded_base64() {
        // [0xfb, 0xff] is "+/8=" in the standard alphabet with padding ("-_8" in the URL-safe one)
        assert!(<ValueBehavior as Behavior>::serialize_bytes(Render, &[0xfb, 0xff]).is_ok());
        assert!(rendered_is(b"+/8="));
        assert!(<KeyBehavior as Behavior>::serialize_bytes(Render, &[0xfb, 0xff]).is_ok());
        assert!(rendered_is(b"+/8="));
        assert!(<ValueBehavior as Behavior>::serialize_bytes(Render, &[1]).is_ok());
        assert!(rendered_is(b"AQ=="));
        kani::cover!(true);
    }

    // JSON is human readable on both sides, Smile is not: serializer and deserializer must agree, because types such
    // as uuid pick their representation from this flag
    #[kani::proof]
    fn human_readable_flags_agree() {
        let mut js = Serializer::new(std::io::sink());
        assert!(ser::Serializer::is_human_readable(&&mut js));
        let mut jc = crate::json::ClientDeserializer::from_slice(b"");
        assert!(serde::Deserializer::is_human_readable(&&mut jc));
        let mut jsv = crate::json::ServerDeserializer::from_slice(b"");
        assert!(serde::Deserializer::is_human_readable(&&mut jsv));
        kani::cover!(true);
    }
}
