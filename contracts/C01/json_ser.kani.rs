// Kani harness module for C01 (Conjure JSON behaviours, serializer side), appended to a scratch copy of
// conjure-serde/src/json/ser.rs. Uses the instrumented sink of crate::ser::verif_c01.
#[cfg(kani)]
mod verif_c01 {
    use super::*;
    use crate::ser::verif_c01::{at, last_str_is, n, reset, Ev, Sink};
    use std::marker::PhantomData;

    // type-level wiring (checked by compilation): JSON values switch to the JSON key behaviour below a key,
    // and the key behaviour is sticky
    #[allow(dead_code)]
    fn wiring() {
        let _: PhantomData<<ValueBehavior as Behavior>::KeyBehavior> = PhantomData::<KeyBehavior>;
        let _: PhantomData<<KeyBehavior as Behavior>::KeyBehavior> = PhantomData::<KeyBehavior>;
    }

    macro_rules! float_value_hook {
        ($name:ident, $t:ident, $method:ident, $ev:expr) => {
            #[kani::proof]
            #[kani::unwind(14)]
            fn $name() {
                let v: $t = kani::any();
                reset();
                assert!(<ValueBehavior as Behavior>::$method(Sink, v).is_ok());
                assert!(n() == 1);
                if v.is_nan() {
                    assert!(last_str_is(b"NaN") && matches!(at(0), Ev::Str(..)));
                } else if v == $t::INFINITY {
                    assert!(last_str_is(b"Infinity") && matches!(at(0), Ev::Str(..)));
                } else if v == $t::NEG_INFINITY {
                    assert!(last_str_is(b"-Infinity") && matches!(at(0), Ev::Str(..)));
                } else {
                    // finite values stay native numbers, bit for bit
                    assert!(at(0) == $ev(v.to_bits()));
                }
                kani::cover!(v.is_nan());
                kani::cover!(v == $t::NEG_INFINITY);
                kani::cover!(v.is_finite());
            }
        };
    }
    float_value_hook!(value_f64_hook, f64, serialize_f64, Ev::F64);
    float_value_hook!(value_f32_hook, f32, serialize_f32, Ev::F32);

    macro_rules! float_key_hook {
        ($name:ident, $t:ident, $method:ident, $ev:expr) => {
            #[kani::proof]
            #[kani::unwind(14)]
            fn $name() {
                let v: $t = kani::any();
                reset();
                assert!(<KeyBehavior as Behavior>::$method(Sink, v).is_ok());
                assert!(n() == 1);
                if v.is_nan() {
                    assert!(last_str_is(b"NaN") && matches!(at(0), Ev::Str(..)));
                } else if v == $t::INFINITY {
                    assert!(last_str_is(b"Infinity") && matches!(at(0), Ev::Str(..)));
                } else if v == $t::NEG_INFINITY {
                    assert!(last_str_is(b"-Infinity") && matches!(at(0), Ev::Str(..)));
                } else {
                    // finite keys become the string form of the same number (collect_str of the value itself)
                    assert!(at(0) == $ev(v.to_bits()));
                }
                kani::cover!(v.is_nan());
                kani::cover!(v.is_finite());
            }
        };
    }
    float_key_hook!(key_f64_hook, f64, serialize_f64, Ev::CollectF64);
    float_key_hook!(key_f32_hook, f32, serialize_f32, Ev::CollectF32);

    #[kani::proof]
    #[kani::unwind(14)]
    fn key_bool_hook() {
        let v: bool = kani::any();
        reset();
        assert!(<KeyBehavior as Behavior>::serialize_bool(Sink, v).is_ok());
        assert!(n() == 1 && matches!(at(0), Ev::Str(..)));
        assert!(last_str_is(if v { b"true" } else { b"false" }));
        // in value position booleans stay booleans
        reset();
        assert!(<ValueBehavior as Behavior>::serialize_bool(Sink, v).is_ok());
        assert!(n() == 1 && at(0) == Ev::Bool(v));
        kani::cover!(v);
        kani::cover!(!v);
    }

    #[kani::proof]
    #[kani::unwind(48)]
    fn bytes_hooks_use_base64_display() {
        let b: [u8; 3] = kani::any();
        reset();
        assert!(<ValueBehavior as Behavior>::serialize_bytes(Sink, &b).is_ok());
        assert!(n() == 1 && at(0) == Ev::CollectBase64);
        reset();
        assert!(<KeyBehavior as Behavior>::serialize_bytes(Sink, &b).is_ok());
        assert!(n() == 1 && at(0) == Ev::CollectBase64);
        kani::cover!(true);
    }

    // JSON is human readable on both sides, Smile is not: serializer and deserializer must agree, because types such
    // as uuid pick their representation from this flag
    #[kani::proof]
    fn human_readable_flags_agree() {
        let mut js = Serializer::new(std::io::sink());
        assert!(ser::Serializer::is_human_readable(&&mut js));
        let mut jc = crate::json::ClientDeserializer::from_slice(b"");
        assert!(serde::Deserializer::is_human_readable(&&mut jc));
        let mut jsv = crate::json::ServerDeserializer::from_slice(b"");
        assert!(serde::Deserializer::is_human_readable(&&mut jsv));
        kani::cover!(true);
    }
}
