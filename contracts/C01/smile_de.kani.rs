// Kani harness module for C01 (Smile behaviours, deserializer side), appended to conjure-serde/src/smile/de/client.rs
#[cfg(kani)]
mod verif_c01 {
    use super::*;
    use crate::de::verif_c01::{at, bv, fv, n, script, Ev, Reply, Src, UV, BOOL, BYTES, F64};
    use std::marker::PhantomData;

    #[allow(dead_code)]
    fn wiring() {
        let _: PhantomData<<ValueBehavior as Behavior>::KeyBehavior> = PhantomData::<crate::json::de::client::KeyBehavior>;
    }

    #[kani::proof]
    fn smile_values_are_native() {
        script(Reply::Natural, Reply::Natural);
        assert!(<ValueBehavior as Behavior>::deserialize_f64(Src(0), UV).is_ok());
        assert!(n() == 2 && at(0) == Ev::M(F64, 0, 0) && at(1) == fv());
        script(Reply::Natural, Reply::Natural);
        assert!(<ValueBehavior as Behavior>::deserialize_bool(Src(0), UV).is_ok());
        assert!(n() == 2 && at(0) == Ev::M(BOOL, 0, 0) && at(1) == bv());
        script(Reply::Unit, Reply::Natural);
        assert!(<ValueBehavior as Behavior>::deserialize_bytes(Src(0), UV).is_ok());
        assert!(n() == 2 && at(0) == Ev::M(BYTES, 0, 0));
        kani::cover!(true);
    }
}
