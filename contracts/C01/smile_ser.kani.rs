// Kani harness module for C01 (Smile behaviours, serializer side), appended to conjure-serde/src/smile/ser.rs
#[cfg(kani)]
mod verif_c01 {
    use super::*;
    use crate::ser::verif_c01::{at, n, reset, Ev, Sink};
    use std::marker::PhantomData;

    // type-level wiring (checked by compilation): Smile uses the JSON key spellings
    #[allow(dead_code)]
    fn wiring() {
        let _: PhantomData<<ValueBehavior as Behavior>::KeyBehavior> = PhantomData::<crate::json::ser::KeyBehavior>;
    }

    // Smile carries floats and binary natively: the value hooks are the identity (all bit patterns, incl. non-finite)
    #[kani::proof]
    fn smile_values_are_native() {
        let d: f64 = kani::any();
        reset();
        assert!(<ValueBehavior as Behavior>::serialize_f64(Sink, d).is_ok());
        assert!(n() == 1 && at(0) == Ev::F64(d.to_bits()));
        let f: f32 = kani::any();
        reset();
        assert!(<ValueBehavior as Behavior>::serialize_f32(Sink, f).is_ok());
        assert!(n() == 1 && at(0) == Ev::F32(f.to_bits()));
        let b: [u8; 2] = kani::any();
        reset();
        assert!(<ValueBehavior as Behavior>::serialize_bytes(Sink, &b).is_ok());
        assert!(n() == 1 && at(0) == Ev::Bytes(2, b[0]));
        let t: bool = kani::any();
        reset();
        assert!(<ValueBehavior as Behavior>::serialize_bool(Sink, t).is_ok());
        assert!(n() == 1 && at(0) == Ev::Bool(t));
        kani::cover!(d.is_nan());
    }

    // (constructing serde_smile's serializer makes Kani report pointer checks inside the dependency that do not replay
    // natively, so the serializer's own flag is covered by the syntactic scan C01.S.entry_wiring instead)
    #[kani::proof]
    fn human_readable_flags_agree_de() {
        let mut sc = crate::smile::ClientDeserializer::from_slice(b"");
        assert!(!serde::Deserializer::is_human_readable(&&mut sc));
        let mut ssv = crate::smile::ServerDeserializer::from_slice(b"");
        assert!(!serde::Deserializer::is_human_readable(&&mut ssv));
        std::mem::forget(sc);
        std::mem::forget(ssv);
        kani::cover!(true);
    }
}
