// Kani harness module for C01, appended to a scratch copy of conjure-serde/src/de/delegating_visitor.rs
#[cfg(kani)]
mod verif_c01 {
    use super::*;
    use crate::de::verif_c01::{at, key_probe_at, n, reset, script, value_probe_at, Acc, Ev, Reply, Src, E, UV};

    /// a custom visitor that overrides nothing: every default method of Visitor2 must forward
    struct Nothing;
    impl<'de, V: Visitor<'de>> Visitor2<'de, V> for Nothing {}

    fn dv() -> DelegatingVisitor<Nothing, UV> {
        reset();
        DelegatingVisitor::new(Nothing, UV)
    }

    macro_rules! forward_scalar {
        ($name:ident, $method:ident, $t:ty, $ev:expr) => {
            #[kani::proof]
            fn $name() {
                let v: $t = kani::any();
                assert!(dv().$method::<E>(v).is_ok());
                assert!(n() == 1 && at(0) == $ev(v));
                kani::cover!(true);
            }
        };
    }
    forward_scalar!(dv_bool, visit_bool, bool, Ev::VBool);
    forward_scalar!(dv_i8, visit_i8, i8, Ev::VI8);
    forward_scalar!(dv_i16, visit_i16, i16, Ev::VI16);
    forward_scalar!(dv_i32, visit_i32, i32, Ev::VI32);
    forward_scalar!(dv_i64, visit_i64, i64, Ev::VI64);
    forward_scalar!(dv_i128, visit_i128, i128, Ev::VI128);
    forward_scalar!(dv_u8, visit_u8, u8, Ev::VU8);
    forward_scalar!(dv_u16, visit_u16, u16, Ev::VU16);
    forward_scalar!(dv_u32, visit_u32, u32, Ev::VU32);
    forward_scalar!(dv_u64, visit_u64, u64, Ev::VU64);
    forward_scalar!(dv_u128, visit_u128, u128, Ev::VU128);
    forward_scalar!(dv_char, visit_char, char, Ev::VChar);

    #[kani::proof]
    #[kani::unwind(4)]
    fn dv_floats_strings_bytes_none_unit() {
        let f: f32 = kani::any();
        assert!(dv().visit_f32::<E>(f).is_ok());
        assert!(n() == 1 && at(0) == Ev::VF32(f.to_bits()));
        let d: f64 = kani::any();
        assert!(dv().visit_f64::<E>(d).is_ok());
        assert!(n() == 1 && at(0) == Ev::VF64(d.to_bits()));
        assert!(dv().visit_str::<E>("ab").is_ok());
        assert!(n() == 1 && at(0) == Ev::VStr(2, b'a'));
        assert!(dv().visit_borrowed_str::<E>("abc").is_ok());
        assert!(n() == 1 && at(0) == Ev::VBorrowedStr(3, b'a'));
        assert!(dv().visit_string::<E>(String::from("xy")).is_ok());
        assert!(n() == 1 && at(0) == Ev::VString(2, b'x'));
        let b: [u8; 2] = kani::any();
        assert!(dv().visit_bytes::<E>(&b).is_ok());
        assert!(n() == 1 && at(0) == Ev::VBytes(2, b[0]));
        static SB: [u8; 3] = [7, 8, 9];
        assert!(dv().visit_borrowed_bytes::<E>(&SB).is_ok());
        assert!(n() == 1 && at(0) == Ev::VBorrowedBytes(3, 7));
        let mut v = Vec::with_capacity(1);
        v.push(b[1]);
        assert!(dv().visit_byte_buf::<E>(v).is_ok());
        assert!(n() == 1 && at(0) == Ev::VByteBuf(1, b[1]));
        assert!(dv().visit_none::<E>().is_ok());
        assert!(n() == 1 && at(0) == Ev::VNone);
        assert!(dv().visit_unit::<E>().is_ok());
        assert!(n() == 1 && at(0) == Ev::VUnit);
        kani::cover!(true);
    }

    #[kani::proof]
    fn dv_compound_forwarded_with_the_same_access() {
        // the nested deserializer / access object is handed on as is (here: unwrapped Src/Acc, so no hook fires)
        script(Reply::Natural, Reply::Natural);
        assert!(DelegatingVisitor::new(Nothing, UV).visit_some(Src(0)).is_ok());
        assert!(n() == 3 && at(0) == Ev::VSome && matches!(at(1), Ev::M(..)) && matches!(at(2), Ev::VF64(_)));
        script(Reply::Natural, Reply::Natural);
        assert!(DelegatingVisitor::new(Nothing, UV).visit_newtype_struct(Src(0)).is_ok());
        assert!(n() == 3 && at(0) == Ev::VNewtype);
        script(Reply::Natural, Reply::Natural);
        assert!(DelegatingVisitor::new(Nothing, UV).visit_seq(Acc(0)).is_ok());
        assert!(n() == 4 && at(0) == Ev::VSeq && at(1) == Ev::SeqNext);
        script(Reply::Natural, Reply::Natural);
        assert!(DelegatingVisitor::new(Nothing, UV).visit_map(Acc(0)).is_ok());
        assert!(n() == 7 && at(0) == Ev::VMap && at(1) == Ev::MapKey && at(4) == Ev::MapValue);
        script(Reply::Natural, Reply::Natural);
        assert!(DelegatingVisitor::new(Nothing, UV).visit_enum(Acc(0)).is_ok());
        assert!(n() == 7 && at(0) == Ev::VEnum && at(1) == Ev::Variant && at(4) == Ev::NewtypeVariant);
        kani::cover!(true);
    }

    #[allow(dead_code)]
    fn _u() {
        let _ = (key_probe_at(0), value_probe_at(0));
    }
}
