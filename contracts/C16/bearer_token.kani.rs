// Kani harness module for C16 (bearer-token half), appended to a scratch copy of
// conjure-object/src/bearer_token/mod.rs
#[cfg(kani)]
mod verif_c16 {
    use super::*;

    // ---- specification, written from the property statement: ^[A-Za-z0-9\-._~+/]+=*$ -----------------
    pub fn spec_valid_char(b: u8) -> bool {
        matches!(b, b'A'..=b'Z' | b'a'..=b'z' | b'0'..=b'9' | b'-' | b'.' | b'_' | b'~' | b'+' | b'/')
    }

    pub fn spec_valid(s: &[u8]) -> bool {
        let mut i = 0;
        while i < s.len() && spec_valid_char(s[i]) {
            i += 1;
        }
        if i == 0 {
            return false;
        }
        while i < s.len() && s[i] == b'=' {
            i += 1;
        }
        i == s.len()
    }

    pub fn nofmt_write(_: &mut dyn fmt::Write, _: fmt::Arguments<'_>) -> fmt::Result {
        Ok(())
    }

//@@TABLE-BEGIN
    // complete: the whole lookup table
    #[kani::proof]
    fn valid_char_table() {
        let b: u8 = kani::any();
        kani::assume(b < 128);
        assert!(valid_char(b) == spec_valid_char(b));
        kani::cover!(valid_char(b));
        kani::cover!(!valid_char(b));
    }

    // the helper's contract on non-ASCII bytes (what the current, unguarded call sites need)
    #[kani::proof]
    fn valid_char_high_bytes() {
        let b: u8 = kani::any();
        kani::assume(b >= 128);
        assert!(!valid_char(b));
        kani::cover!(b == 255);
    }

//@@TABLE-END
//@@ISVALID-BEGIN
    macro_rules! is_valid_bounded {
        ($name:ident, $n:expr, $unwind:expr) => {
            #[kani::proof]
            #[kani::unwind($unwind)]
            fn $name() {
                let bytes: [u8; $n] = kani::any();
                let len: usize = kani::any();
                kani::assume(len <= $n);
                let sl = &bytes[..len];
                if let Ok(s) = std::str::from_utf8(sl) {
                    assert!(is_valid(s) == spec_valid(sl));
                }
                kani::cover!(len == $n && spec_valid(sl));
                kani::cover!(len == $n && !spec_valid(sl));
            }
        };
    }
    is_valid_bounded!(is_valid_matches_regex_len4, 4, 7);
    is_valid_bounded!(is_valid_matches_regex_len5, 5, 8);

    // long inputs, cheap form: tokens of 20, 33 and 40 class characters with one arbitrary ASCII byte at the first, a middle or
    // the last position (positions are concrete, so this stays decidable when is_valid is restructured into blocks)
    macro_rules! is_valid_long_edge {
        ($name:ident, $n:expr, $pos:expr) => {
            #[kani::proof]
            #[kani::unwind(44)]
            fn $name() {
                let mut buf = [b'a'; $n];
                let b: u8 = kani::any();
                kani::assume(b < 128);
                buf[$pos] = b;
                let s = unsafe { std::str::from_utf8_unchecked(&buf) };
                assert!(is_valid(s) == spec_valid(&buf));
                kani::cover!(spec_valid(&buf));
                kani::cover!(!spec_valid(&buf));
            }
        };
    }
    is_valid_long_edge!(is_valid_long_edge_20_first, 20, 0);
    is_valid_long_edge!(is_valid_long_edge_20_last, 20, 19);
    is_valid_long_edge!(is_valid_long_edge_33_middle, 33, 17);
    is_valid_long_edge!(is_valid_long_edge_33_last, 33, 32);
    is_valid_long_edge!(is_valid_long_edge_40_last, 40, 39);

    // long inputs: a 40-byte token of class characters with one arbitrary ASCII byte at an arbitrary position, and an
    // arbitrary number of trailing '=' (validation that only looks at part of a long string shows here)
    #[kani::proof]
    #[kani::unwind(44)]
    fn is_valid_long_one_free_byte() {
        let mut buf = [b'a'; 40];
        let pad: usize = kani::any();
        kani::assume(pad <= 6);
        let mut k = 0;
        while k < 6 {
            if k < pad {
                buf[39 - k] = b'=';
            }
            k += 1;
        }
        let i: usize = kani::any();
        kani::assume(i < 40);
        let b: u8 = kani::any();
        kani::assume(b < 128);
        buf[i] = b;
        let s = unsafe { std::str::from_utf8_unchecked(&buf) };
        assert!(is_valid(s) == spec_valid(&buf));
        kani::cover!(spec_valid(&buf) && !spec_valid_char(b));
        kani::cover!(!spec_valid(&buf) && i == 39);
        kani::cover!(!spec_valid(&buf) && i == 0);
    }

//@@ISVALID-END
//@@API-BEGIN
    // ---- entry paths: accept <=> is_valid, accepted value renders back to the identical string ---------
    fn any_str3(buf: &[u8; 3]) -> Option<&str> {
        let len: usize = kani::any();
        kani::assume(len <= 3);
        std::str::from_utf8(&buf[..len]).ok()
    }

    #[kani::proof]
    #[kani::unwind(6)]
    #[kani::stub(core::fmt::write, nofmt_write)]
    fn from_str_new_from_plain_len3() {
        use crate::plain::FromPlain;
        let buf: [u8; 3] = kani::any();
        if let Some(s) = any_str3(&buf) {
            let want = spec_valid(s.as_bytes());
            match BearerToken::from_str(s) {
                Ok(t) => {
                    assert!(want);
                    assert!(t.as_str().as_bytes() == s.as_bytes());
                    std::mem::forget(t);
                }
                Err(_) => assert!(!want),
            }
            match BearerToken::new(s) {
                Ok(t) => {
                    assert!(want);
                    assert!(t.as_str().as_bytes() == s.as_bytes());
                    std::mem::forget(t);
                }
                Err(_) => assert!(!want),
            }
            match <BearerToken as FromPlain>::from_plain(s) {
                Ok(t) => {
                    assert!(want);
                    assert!(t.as_str().as_bytes() == s.as_bytes());
                    let owned = t.into_string();
                    assert!(owned.as_bytes() == s.as_bytes());
                    std::mem::forget(owned);
                }
                Err(_) => assert!(!want),
            }
        }
        kani::cover!(true);
    }

    // instrumented string deserializer / recording serializer with a formatting-free error type
    #[derive(Debug)]
    pub struct MockErr;
    impl fmt::Display for MockErr {
        fn fmt(&self, _: &mut fmt::Formatter<'_>) -> fmt::Result {
            Ok(())
        }
    }
    impl Error for MockErr {}
    impl de::Error for MockErr {
        fn custom<T: fmt::Display>(_: T) -> Self {
            MockErr
        }
        fn invalid_type(_: de::Unexpected, _: &dyn de::Expected) -> Self {
            MockErr
        }
        fn invalid_value(_: de::Unexpected, _: &dyn de::Expected) -> Self {
            MockErr
        }
    }
    pub struct StrDe<'a>(pub &'a str);
    impl<'de, 'a> Deserializer<'de> for StrDe<'a> {
        type Error = MockErr;
        fn deserialize_any<V: de::Visitor<'de>>(self, v: V) -> Result<V::Value, MockErr> {
            v.visit_str(self.0)
        }
        serde::forward_to_deserialize_any! { bool i8 i16 i32 i64 i128 u8 u16 u32 u64 u128 f32 f64 char str string bytes byte_buf option unit unit_struct newtype_struct seq tuple tuple_struct map struct enum identifier ignored_any }
    }

    #[kani::proof]
    #[kani::unwind(6)]
    #[kani::stub(core::fmt::write, nofmt_write)]
    fn deserialize_len3() {
        let buf: [u8; 3] = kani::any();
        if let Some(s) = any_str3(&buf) {
            let want = spec_valid(s.as_bytes());
            match BearerToken::deserialize(StrDe(s)) {
                Ok(t) => {
                    assert!(want);
                    assert!(t.as_str().as_bytes() == s.as_bytes());
                    std::mem::forget(t);
                }
                Err(_) => assert!(!want),
            }
        }
        kani::cover!(true);
    }

    pub static mut SER_LEN: usize = usize::MAX;
    pub static mut SER_HEAD: [u8; 3] = [0; 3];
    pub struct RecSer;
    type Imp = serde::ser::Impossible<(), SerErr>;
    #[derive(Debug)]
    pub struct SerErr;
    impl fmt::Display for SerErr {
        fn fmt(&self, _: &mut fmt::Formatter<'_>) -> fmt::Result {
            Ok(())
        }
    }
    impl Error for SerErr {}
    impl serde::ser::Error for SerErr {
        fn custom<T: fmt::Display>(_: T) -> Self {
            SerErr
        }
    }
    impl Serializer for RecSer {
        type Ok = ();
        type Error = SerErr;
        type SerializeSeq = Imp;
        type SerializeTuple = Imp;
        type SerializeTupleStruct = Imp;
        type SerializeTupleVariant = Imp;
        type SerializeMap = Imp;
        type SerializeStruct = Imp;
        type SerializeStructVariant = Imp;
        fn serialize_str(self, v: &str) -> Result<(), SerErr> {
            unsafe {
                SER_LEN = v.len();
                let b = v.as_bytes();
                if b.len() > 0 { SER_HEAD[0] = b[0]; }
                if b.len() > 1 { SER_HEAD[1] = b[1]; }
                if b.len() > 2 { SER_HEAD[2] = b[2]; }
            }
            Ok(())
        }
        fn serialize_bool(self, _: bool) -> Result<(), SerErr> { Err(SerErr) }
        fn serialize_i8(self, _: i8) -> Result<(), SerErr> { Err(SerErr) }
        fn serialize_i16(self, _: i16) -> Result<(), SerErr> { Err(SerErr) }
        fn serialize_i32(self, _: i32) -> Result<(), SerErr> { Err(SerErr) }
        fn serialize_i64(self, _: i64) -> Result<(), SerErr> { Err(SerErr) }
        fn serialize_u8(self, _: u8) -> Result<(), SerErr> { Err(SerErr) }
        fn serialize_u16(self, _: u16) -> Result<(), SerErr> { Err(SerErr) }
        fn serialize_u32(self, _: u32) -> Result<(), SerErr> { Err(SerErr) }
        fn serialize_u64(self, _: u64) -> Result<(), SerErr> { Err(SerErr) }
        fn serialize_f32(self, _: f32) -> Result<(), SerErr> { Err(SerErr) }
        fn serialize_f64(self, _: f64) -> Result<(), SerErr> { Err(SerErr) }
        fn serialize_char(self, _: char) -> Result<(), SerErr> { Err(SerErr) }
        fn serialize_bytes(self, _: &[u8]) -> Result<(), SerErr> { Err(SerErr) }
        fn serialize_none(self) -> Result<(), SerErr> { Err(SerErr) }
        fn serialize_some<T: ?Sized + Serialize>(self, _: &T) -> Result<(), SerErr> { Err(SerErr) }
        fn serialize_unit(self) -> Result<(), SerErr> { Err(SerErr) }
        fn serialize_unit_struct(self, _: &'static str) -> Result<(), SerErr> { Err(SerErr) }
        fn serialize_unit_variant(self, _: &'static str, _: u32, _: &'static str) -> Result<(), SerErr> { Err(SerErr) }
        fn serialize_newtype_struct<T: ?Sized + Serialize>(self, _: &'static str, _: &T) -> Result<(), SerErr> { Err(SerErr) }
        fn serialize_newtype_variant<T: ?Sized + Serialize>(self, _: &'static str, _: u32, _: &'static str, _: &T) -> Result<(), SerErr> { Err(SerErr) }
        fn serialize_seq(self, _: Option<usize>) -> Result<Imp, SerErr> { Err(SerErr) }
        fn serialize_tuple(self, _: usize) -> Result<Imp, SerErr> { Err(SerErr) }
        fn serialize_tuple_struct(self, _: &'static str, _: usize) -> Result<Imp, SerErr> { Err(SerErr) }
        fn serialize_tuple_variant(self, _: &'static str, _: u32, _: &'static str, _: usize) -> Result<Imp, SerErr> { Err(SerErr) }
        fn serialize_map(self, _: Option<usize>) -> Result<Imp, SerErr> { Err(SerErr) }
        fn serialize_struct(self, _: &'static str, _: usize) -> Result<Imp, SerErr> { Err(SerErr) }
        fn serialize_struct_variant(self, _: &'static str, _: u32, _: &'static str, _: usize) -> Result<Imp, SerErr> { Err(SerErr) }
    }

    #[kani::proof]
    #[kani::unwind(6)]
    #[kani::stub(core::fmt::write, nofmt_write)]
    fn serialize_renders_identical_len3() {
        let buf: [u8; 3] = kani::any();
        if let Some(s) = any_str3(&buf) {
            if let Ok(t) = BearerToken::from_str(s) {
                assert!(t.serialize(RecSer).is_ok());
                unsafe {
                    assert!(SER_LEN == s.len());
                    let b = s.as_bytes();
                    assert!(b.len() < 1 || SER_HEAD[0] == b[0]);
                    assert!(b.len() < 2 || SER_HEAD[1] == b[1]);
                    assert!(b.len() < 3 || SER_HEAD[2] == b[2]);
                }
                // PLAIN rendering goes through as_str()
                assert!(t.as_str().as_bytes() == s.as_bytes());
                assert!(AsRef::<str>::as_ref(&t).as_bytes() == s.as_bytes());
                assert!(Borrow::<str>::borrow(&t).as_bytes() == s.as_bytes());
                std::mem::forget(t);
            }
        }
        kani::cover!(true);
    }

//@@API-END
//@@ISVALID-BEGIN
    // boundary literals from the property statement (concrete)
    #[kani::proof]
    #[kani::unwind(12)]
    fn literals() {
        let ok = ["a", "a=", "a==", "A-._~+/z09", "+", "/==="];
        let bad = ["", "=", "==", "a=b", "a\n", "\na", "a =", "a b", "é", "a\u{e9}", "a=\n", "a*"];
        let i: usize = kani::any();
        kani::assume(i < ok.len());
        assert!(is_valid(ok[i]));
        let j: usize = kani::any();
        kani::assume(j < bad.len());
        assert!(!is_valid(bad[j]));
        kani::cover!(true);
    }
//@@ISVALID-END
}
