"""C16 — Bearer tokens (and resource identifiers) are validated exactly on every entry path.
Only the bearer-token half is decided; resource identifiers rest on the `regex` crate."""
from vf import vx, Undecided

B = "conjure-object/src/bearer_token/mod.rs"

TRUSTED = [
    "rustc, Kani 0.68 + CBMC 6.11",
    "str::trim_end_matches and Iterator::all (std) beyond the stated string-length bound",
    "serde's String Deserialize/Serialize impls are executed by Kani, not assumed",
]
ASSUMPTIONS = [
    "RESOURCE IDENTIFIERS ARE NOT DECIDED: recognition and component offsets are delegated to the `regex` crate (engine construction and matching are far outside CBMC; Verus cannot reason about str bytes). A change confined to resource_identifier/mod.rs is not detected by this check.",
    "the unbounded step of is_valid (trim_end_matches('=') + Iterator::all) lives in std and cannot carry a loop contract; only the 256-entry table is proved for all inputs, strings are bounded",
    "core::fmt::write stubbed to a no-op in harnesses whose error paths format a message",
    "cfg(kani) harness module appended to a scratch copy; executable text unchanged",
]
NOT_DECIDED = [
    "resource identifier grammar, component accessors, from_components (regex crate)",
    "strings longer than the stated bounds",
]

def H(name, ob, fns, desc, kind="complete", bound=None, tier="quick", timeout=300, helper_for=None):
    return dict(name=name, ob=ob, functions=[B + "::" + f for f in fns], desc=desc, kind=kind, bound=bound, tier=tier, timeout=timeout, helper_for=helper_for)

_ALL_H = [
        H("valid_char_table", "C16.K.valid_char.table", ["fn valid_char", "static VALID_CHARS"],
          "for all 128 ASCII bytes: valid_char(b) <=> b in [A-Za-z0-9-._~+/] ('=' is not in the class)"),
        H("valid_char_high_bytes", "C16.K.valid_char.table_high", ["fn valid_char", "static VALID_CHARS"],
          "for all bytes >= 128: valid_char(b) is false (helper contract needed by the unguarded call sites; undecided rather than a violation when every property-level obligation on non-ASCII input is discharged)",
          helper_for=["C16.K.is_valid.regex_len4", "C16.K.entry.deserialize", "C16.K.entry.from_str_new_from_plain"]),
        H("is_valid_matches_regex_len4", "C16.K.is_valid.regex_len4", ["fn is_valid", "fn valid_char"],
          "is_valid(s) <=> s matches ^[A-Za-z0-9\\-._~+/]+=*$ for every UTF-8 string of <= 4 bytes", kind="bounded", bound="strings of <= 4 bytes", timeout=600),
        H("is_valid_long_edge_20_first", "C16.K.is_valid.long_edge.20_first", ["fn is_valid", "fn valid_char"],
          "is_valid(s) <=> grammar for a token of class characters with one arbitrary ASCII byte (20 bytes, free byte first)", kind="bounded", bound="20 bytes, free byte first", timeout=300),
        H("is_valid_long_edge_20_last", "C16.K.is_valid.long_edge.20_last", ["fn is_valid", "fn valid_char"],
          "is_valid(s) <=> grammar for a token of class characters with one arbitrary ASCII byte (20 bytes, free byte last)", kind="bounded", bound="20 bytes, free byte last", timeout=300),
        H("is_valid_long_edge_33_middle", "C16.K.is_valid.long_edge.33_middle", ["fn is_valid", "fn valid_char"],
          "is_valid(s) <=> grammar for a token of class characters with one arbitrary ASCII byte (33 bytes, free byte at 17)", kind="bounded", bound="33 bytes, free byte at 17", timeout=300),
        H("is_valid_long_edge_33_last", "C16.K.is_valid.long_edge.33_last", ["fn is_valid", "fn valid_char"],
          "is_valid(s) <=> grammar for a token of class characters with one arbitrary ASCII byte (33 bytes, free byte last)", kind="bounded", bound="33 bytes, free byte last", timeout=300),
        H("is_valid_long_edge_40_last", "C16.K.is_valid.long_edge.40_last", ["fn is_valid", "fn valid_char"],
          "is_valid(s) <=> grammar for a token of class characters with one arbitrary ASCII byte (40 bytes, free byte last)", kind="bounded", bound="40 bytes, free byte last", timeout=300),
        H("is_valid_long_one_free_byte", "C16.K.is_valid.long_one_free_byte", ["fn is_valid", "fn valid_char"],
          "is_valid(s) <=> s matches the grammar for 40-byte strings 'a…a' with 0..6 trailing '=' and one arbitrary ASCII byte at an arbitrary position", kind="bounded", bound="40-byte strings with one free ASCII byte", timeout=600),
        H("is_valid_matches_regex_len5", "C16.K.is_valid.regex_len5", ["fn is_valid", "fn valid_char"],
          "same for <= 5 bytes", kind="bounded", bound="strings of <= 5 bytes", tier="thorough", timeout=3000),
        H("from_str_new_from_plain_len3", "C16.K.entry.from_str_new_from_plain", ["FromStr for BearerToken::from_str", "BearerToken::new", "BearerToken::as_str", "BearerToken::into_string", "conjure-object/src/plain.rs::macro as_from_str"],
          "from_str / new / from_plain accept <=> regex; accepted token's as_str()/into_string() equal the input", kind="bounded", bound="strings of <= 3 bytes", timeout=900),
        H("deserialize_len3", "C16.K.entry.deserialize", ["Deserialize<'de> for BearerToken::deserialize"],
          "Deserialize accepts <=> regex; value equals the input", kind="bounded", bound="strings of <= 3 bytes", timeout=900),
        H("serialize_renders_identical_len3", "C16.K.render.identical", ["Serialize for BearerToken::serialize", "AsRef<str> for BearerToken::as_ref", "Borrow<str> for BearerToken::borrow"],
          "Serialize / as_ref / borrow render the identical string", kind="bounded", bound="strings of <= 3 bytes", timeout=900),
        H("literals", "C16.K.literals", ["fn is_valid"], "boundary literals of the statement: '\\n', '=', 'a=b', non-ASCII rejected; padded forms accepted", kind="bounded", bound="18 concrete literals", timeout=600),
    ]
_HERE = __import__("os").path.dirname(__import__("os").path.abspath(__file__))
def _variant(drop):
    def f(ws):
        s = open(__import__("os").path.join(_HERE, "bearer_token.kani.rs")).read()
        for tag in drop:
            while ("//@@%s-BEGIN" % tag) in s:
                a, b = s.index("//@@%s-BEGIN" % tag), s.index("//@@%s-END" % tag)
                s = s[:a] + s[b + len("//@@%s-END" % tag):]
        return s
    return f
_TABLE = {"valid_char_table", "valid_char_high_bytes"}
_ISVALID = {"is_valid_long_edge_20_first", "is_valid_long_edge_20_last", "is_valid_long_edge_33_middle", "is_valid_long_edge_33_last", "is_valid_long_edge_40_last", "is_valid_matches_regex_len4", "is_valid_matches_regex_len5", "is_valid_long_one_free_byte", "literals"}
# three units so that a refactoring of the private helpers (valid_char / is_valid signatures) can only make the
# units that name them undecided; the entry-path harnesses use the public API only
KANI_UNITS = [
    dict(name="table", crate="conjure-object", modpath="bearer_token::verif_c16", injections=[dict(file=B, module_fn=_variant(["ISVALID", "API"]))],
         harnesses=[h for h in _ALL_H if h["name"] in _TABLE]),
    dict(name="is_valid", crate="conjure-object", modpath="bearer_token::verif_c16", injections=[dict(file=B, module_fn=_variant(["TABLE", "API"]))],
         harnesses=[h for h in _ALL_H if h["name"] in _ISVALID]),
    dict(name="entry_paths", crate="conjure-object", modpath="bearer_token::verif_c16", injections=[dict(file=B, module_fn=_variant(["TABLE", "ISVALID"]))],
         harnesses=[h for h in _ALL_H if h["name"] not in _TABLE | _ISVALID]),
]

MUTANTS = [
    dict(name="is_valid_scans_only_the_first_16_bytes", file=B, **{"from": "!stripped.as_bytes().iter().cloned().all(valid_char)", "to": "!stripped.as_bytes().iter().take(16).cloned().all(valid_char)"},
         expect=["C16.K.is_valid.long_one_free_byte"]),
    dict(name="table_accepts_equals", file=B, **{"from": "       0,    0,    0,    0,    0, b'A', b'B', b'C', b'D', b'E', //  6x", "to": "       0, b'=',    0,    0,    0, b'A', b'B', b'C', b'D', b'E', //  6x"},
         expect=["C16.K.valid_char.table"]),
    dict(name="table_drops_tilde", file=B, **{"from": "b'x', b'y', b'z',    0,    0,    0, b'~',", "to": "b'x', b'y', b'z',    0,    0,    0,    0,"},
         expect=["C16.K.valid_char.table"]),
    dict(name="trim_start_instead_of_end", file=B, **{"from": "s.trim_end_matches('=')", "to": "s.trim_matches('=')"},
         expect=["C16.K.is_valid.regex_len4"]),
    dict(name="deserialize_skips_validation", file=B, **{"from": "        if is_valid(&s) {\n            Ok(BearerToken(s))", "to": "        if is_valid(&s) || s.len() == 2 {\n            Ok(BearerToken(s))"},
         expect=["C16.K.entry.deserialize"]),
    dict(name="empty_after_strip_accepted", file=B, **{"from": "if stripped.is_empty() || !stripped", "to": "if !stripped"},
         expect=["C16.K.is_valid.regex_len4"]),
]

BENIGN = [
    dict(name="is_valid_rewritten_as_one_expression", file=B, **{"from": "    if stripped.is_empty() || !stripped.as_bytes().iter().cloned().all(valid_char) {\n        return false;\n    }\n\n    true", "to": "    !stripped.is_empty() && stripped.bytes().all(valid_char)"}),
    dict(name="from_str_condition_inverted", file=B, **{"from": "        if !is_valid(s) {\n            return Err(ParseError(()));\n        }\n\n        Ok(BearerToken(s.to_string()))", "to": "        if is_valid(s) {\n            Ok(BearerToken(s.to_string()))\n        } else {\n            Err(ParseError(()))\n        }"}),
]
