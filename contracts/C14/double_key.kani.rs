// Kani harness module for C14, appended to a scratch copy of conjure-object/src/double_key.rs.
#[cfg(kani)]
mod verif_c14 {
    use super::*;

    pub struct Rec {
        pub n: usize,
        pub w: [u64; 4],
    }
    impl Hasher for Rec {
        fn finish(&self) -> u64 {
            0
        }
        fn write(&mut self, bytes: &[u8]) {
            let mut v = 0u64;
            let mut i = 0;
            while i < bytes.len() && i < 8 {
                v |= (bytes[i] as u64) << (8 * i);
                i += 1;
            }
            self.write_u64(v ^ ((bytes.len() as u64) << 56));
        }
        fn write_u64(&mut self, v: u64) {
            if self.n < 4 {
                self.w[self.n] = v;
            }
            self.n += 1;
        }
    }
    fn stream(k: &DoubleKey) -> (usize, [u64; 4]) {
        let mut r = Rec { n: 0, w: [0; 4] };
        Hash::hash(k, &mut r);
        (r.n, r.w)
    }

    #[kani::proof]
    fn double_key_laws() {
        let (a, b, c) = (DoubleKey(kani::any()), DoubleKey(kani::any()), DoubleKey(kani::any()));
        // reflexive, NaN == NaN
        assert!(a == a);
        assert!(a.cmp(&a) == Ordering::Equal);
        // PartialEq agrees with Ord; PartialOrd is Some(cmp)
        assert!((a == b) == (a.cmp(&b) == Ordering::Equal));
        assert!(a.partial_cmp(&b) == Some(a.cmp(&b)));
        // antisymmetric, transitive
        assert!(a.cmp(&b) == b.cmp(&a).reverse());
        if a.cmp(&b) != Ordering::Greater && b.cmp(&c) != Ordering::Greater {
            assert!(a.cmp(&c) != Ordering::Greater);
        }
        if a == b && b == c {
            assert!(a == c);
        }
        // NaN greatest, all NaNs equal; otherwise numeric
        if a.0.is_nan() {
            assert!(a.cmp(&b) != Ordering::Less);
            assert!((a == b) == b.0.is_nan());
        }
        if !a.0.is_nan() && !b.0.is_nan() {
            assert!((a.cmp(&b) == Ordering::Less) == (a.0 < b.0));
            assert!((a == b) == (a.0 == b.0));
        }
        // equal keys hash equally
        if a == b {
            assert!(stream(&a) == stream(&b));
        }
        kani::cover!(a.0.is_nan() && b.0.is_nan() && a.0.to_bits() != b.0.to_bits());
        kani::cover!(a.0 == 0.0 && b.0 == 0.0 && a.0.to_bits() != b.0.to_bits());
    }
}
