// Verus unit C14/doubleops: the generic container instances of `DoubleOps` (Option<T>, Vec<T>) from
// conjure-object/src/private.rs, extracted byte-for-byte, proved against lexicographic spec functions, and
// the lifting lemmas "T lawful  ==>  Option<T>, Vec<T> lawful" (so every nesting is lawful).
// Hand-written: the trait mirror (the real trait plus ghost members; `hash<H: Hasher>` is dropped — no Verus
// spec for Hasher), impl headers, spec functions, lemmas, contracts.
//@@ source conjure-object/src/private.rs
use vstd::prelude::*;
use std::cmp::Ordering;
verus! {

pub open spec fn rev(o: Ordering) -> Ordering {
    match o { Ordering::Less => Ordering::Greater, Ordering::Equal => Ordering::Equal, Ordering::Greater => Ordering::Less }
}

// Ghost model of std::hash::Hasher: the sequence of words fed so far. `Hash` mirrors std::hash::Hash for the one std type the
// container impls hash directly (usize, the length prefix). Hand-written mirrors, ASSUMED to describe std:
// `<usize as Hash>::hash` feeds exactly one word determined by the value.
pub trait Hasher: Sized {
    spec fn fed(&self) -> Seq<u64>;
    // the integer write methods of std::hash::Hasher: each feeds one word determined by the value
    fn write_u8(&mut self, i: u8) ensures final(self).fed() == old(self).fed() + seq![i as u64];
    fn write_u32(&mut self, i: u32) ensures final(self).fed() == old(self).fed() + seq![i as u64];
    fn write_u64(&mut self, i: u64) ensures final(self).fed() == old(self).fed() + seq![i];
    fn write_usize(&mut self, i: usize) ensures final(self).fed() == old(self).fed() + seq![i as u64];
}
pub trait Hash {
    spec fn words(&self) -> Seq<u64>;
    fn hash<H: Hasher>(&self, state: &mut H)
        ensures final(state).fed() == old(state).fed() + self.words();
}
impl Hash for usize {
    open spec fn words(&self) -> Seq<u64> { seq![*self as u64] }
    #[verifier::external_body]
    fn hash<H: Hasher>(&self, state: &mut H) { unimplemented!() }
}

// The laws of the property statement (L1-L4): reflexive equality, cmp == Equal exactly for equal values,
// antisymmetry, transitivity. Every instance has to prove them.
pub trait DoubleOps: Sized {
    spec fn cmp_spec(&self, other: &Self) -> Ordering;
    spec fn eq_spec(&self, other: &Self) -> bool;

    proof fn law_eq_iff_cmp_equal(a: &Self, b: &Self)
        ensures a.eq_spec(b) <==> a.cmp_spec(b) == Ordering::Equal;
    proof fn law_refl(a: &Self)
        ensures a.cmp_spec(a) == Ordering::Equal, a.eq_spec(a);
    proof fn law_antisym(a: &Self, b: &Self)
        ensures a.cmp_spec(b) == rev(b.cmp_spec(a));
    proof fn law_trans(a: &Self, b: &Self, c: &Self)
        ensures
            a.cmp_spec(b) != Ordering::Greater && b.cmp_spec(c) != Ordering::Greater ==> a.cmp_spec(c) != Ordering::Greater,
            a.cmp_spec(b) == Ordering::Equal && b.cmp_spec(c) == Ordering::Equal ==> a.cmp_spec(c) == Ordering::Equal;

    fn cmp(&self, other: &Self) -> (r: Ordering)
        ensures r == self.cmp_spec(other);

    fn eq(&self, other: &Self) -> (r: bool)
        ensures r == self.eq_spec(other);

    // L6: the words a value feeds to the hasher, and "equal values feed identical words"
    spec fn hash_words(&self) -> Seq<u64>;
    proof fn law_hash(a: &Self, b: &Self)
        ensures a.eq_spec(b) ==> a.hash_words() == b.hash_words();
    fn hash<H>(&self, hasher: &mut H)
        where H: Hasher
        ensures final(hasher).fed() == old(hasher).fed() + self.hash_words();
}

// ------------------------------------------------------------------------------------------- f64 (base)
// The f64 instance runs ordered_float's code, which Verus cannot see. Its four laws are exactly the
// statements discharged for ALL triples of f64 bit patterns by the Kani obligation C14.K.f64.laws
// (cross-engine discharge); inside this unit they are external_body.
pub uninterp spec fn f64_cmp(a: f64, b: f64) -> Ordering;

impl DoubleOps for f64 {
    open spec fn cmp_spec(&self, other: &Self) -> Ordering { f64_cmp(*self, *other) }
    open spec fn eq_spec(&self, other: &Self) -> bool { f64_cmp(*self, *other) == Ordering::Equal }

    #[verifier::external_body]
    proof fn law_eq_iff_cmp_equal(a: &Self, b: &Self) {}
    #[verifier::external_body]
    proof fn law_refl(a: &Self) {}
    #[verifier::external_body]
    proof fn law_antisym(a: &Self, b: &Self) {}
    #[verifier::external_body]
    proof fn law_trans(a: &Self, b: &Self, c: &Self) {}

    #[verifier::external_body]
    fn cmp(&self, other: &Self) -> Ordering { unimplemented!() }
    #[verifier::external_body]
    fn eq(&self, other: &Self) -> bool { unimplemented!() }

    // hash through OrderedFloat: assumed here, discharged by C14.K.f64.laws (L6 for all pairs of f64)
    open spec fn hash_words(&self) -> Seq<u64> { f64_words(*self) }
    #[verifier::external_body]
    proof fn law_hash(a: &Self, b: &Self) {}
    #[verifier::external_body]
    fn hash<H>(&self, hasher: &mut H) where H: Hasher { unimplemented!() }
}
pub uninterp spec fn f64_words(a: f64) -> Seq<u64>;

// ------------------------------------------------------------------------------------------- Option<T>
pub open spec fn opt_cmp<T: DoubleOps>(a: Option<T>, b: Option<T>) -> Ordering {
    match (a, b) {
        (Some(x), Some(y)) => x.cmp_spec(&y),
        (Some(_), None) => Ordering::Greater,   // empty optional sorts before a present one
        (None, Some(_)) => Ordering::Less,
        (None, None) => Ordering::Equal,
    }
}

impl<T> DoubleOps for Option<T>
where
    T: DoubleOps,
{
    open spec fn cmp_spec(&self, other: &Self) -> Ordering { opt_cmp(*self, *other) }
    open spec fn eq_spec(&self, other: &Self) -> bool {
        match (*self, *other) {
            (Some(x), Some(y)) => x.eq_spec(&y),
            (None, None) => true,
            _ => false,
        }
    }

    proof fn law_eq_iff_cmp_equal(a: &Self, b: &Self) {
        match (*a, *b) { (Some(x), Some(y)) => { T::law_eq_iff_cmp_equal(&x, &y); } _ => {} }
    }
    proof fn law_refl(a: &Self) {
        match *a { Some(x) => { T::law_refl(&x); } None => {} }
    }
    proof fn law_antisym(a: &Self, b: &Self) {
        match (*a, *b) { (Some(x), Some(y)) => { T::law_antisym(&x, &y); } _ => {} }
    }
    proof fn law_trans(a: &Self, b: &Self, c: &Self) {
        match (*a, *b, *c) { (Some(x), Some(y), Some(z)) => { T::law_trans(&x, &y, &z); } _ => {} }
    }

//@@ fn DoubleOps for Option<T>::cmp vfn=Option::cmp
//@@ end

//@@ fn DoubleOps for Option<T>::eq vfn=Option::eq
//@@ end

    // hash: a tag word, then the payload's words. The law is proved from this spec; that the code
    // (mem::discriminant(self).hash(..); payload.hash(..)) feeds these words is ASSUMED in this unit (mem::discriminant has no
    // Verus specification) and discharged for f64 payloads by C14.K.option_f64.laws / option_option_f64.laws.
    open spec fn hash_words(&self) -> Seq<u64> {
        match *self { Some(x) => seq![1u64] + x.hash_words(), None => seq![0u64] }
    }
    proof fn law_hash(a: &Self, b: &Self) {
        match (*a, *b) { (Some(x), Some(y)) => { T::law_hash(&x, &y); } _ => {} }
    }
    #[verifier::external_body]
    fn hash<H>(&self, hasher: &mut H) where H: Hasher { unimplemented!() }
}

// ------------------------------------------------------------------------------------------- Vec<T>
// lexicographic order, a proper prefix sorts first
pub open spec fn seq_cmp<T: DoubleOps>(a: Seq<T>, b: Seq<T>) -> Ordering
    decreases a.len()
{
    if a.len() == 0 && b.len() == 0 { Ordering::Equal }
    else if a.len() == 0 { Ordering::Less }
    else if b.len() == 0 { Ordering::Greater }
    else if a[0].cmp_spec(&b[0]) != Ordering::Equal { a[0].cmp_spec(&b[0]) }
    else { seq_cmp(a.skip(1), b.skip(1)) }
}

pub open spec fn seq_eq<T: DoubleOps>(a: Seq<T>, b: Seq<T>) -> bool {
    a.len() == b.len() && forall|i: int| 0 <= i < a.len() ==> (#[trigger] a[i]).eq_spec(&b[i])
}

// if the first i elements compare Equal, seq_cmp reduces to the suffixes
pub proof fn lemma_seq_cmp_prefix<T: DoubleOps>(a: Seq<T>, b: Seq<T>, i: int)
    requires 0 <= i <= a.len(), i <= b.len(),
        forall|k: int| 0 <= k < i ==> (#[trigger] a[k]).cmp_spec(&b[k]) == Ordering::Equal,
    ensures seq_cmp(a, b) == seq_cmp(a.skip(i), b.skip(i))
    decreases i
{
    if i == 0 {
        assert(a.skip(0) =~= a);
        assert(b.skip(0) =~= b);
    } else {
        lemma_seq_cmp_prefix(a.skip(1), b.skip(1), i - 1);
        assert(a.skip(1).skip(i - 1) =~= a.skip(i));
        assert(b.skip(1).skip(i - 1) =~= b.skip(i));
    }
}

// one unfolding of seq_cmp at position i
pub proof fn lemma_seq_cmp_step<T: DoubleOps>(a: Seq<T>, b: Seq<T>, i: int)
    requires 0 <= i < a.len(), i < b.len(),
    ensures
        a[i].cmp_spec(&b[i]) != Ordering::Equal ==> seq_cmp(a.skip(i), b.skip(i)) == a[i].cmp_spec(&b[i]),
        a[i].cmp_spec(&b[i]) == Ordering::Equal ==> seq_cmp(a.skip(i), b.skip(i)) == seq_cmp(a.skip(i + 1), b.skip(i + 1)),
{
    assert(a.skip(i)[0] == a[i]);
    assert(b.skip(i)[0] == b[i]);
    assert(a.skip(i).skip(1) =~= a.skip(i + 1));
    assert(b.skip(i).skip(1) =~= b.skip(i + 1));
}

pub proof fn lemma_seq_eq_iff<T: DoubleOps>(a: Seq<T>, b: Seq<T>)
    ensures (seq_cmp(a, b) == Ordering::Equal) <==> seq_eq(a, b)
    decreases a.len()
{
    if a.len() == 0 || b.len() == 0 {
    } else {
        T::law_eq_iff_cmp_equal(&a[0], &b[0]);
        lemma_seq_eq_iff(a.skip(1), b.skip(1));
        if seq_cmp(a, b) == Ordering::Equal {
            assert forall|i: int| 0 <= i < a.len() implies (#[trigger] a[i]).eq_spec(&b[i]) by {
                if i > 0 { assert(a.skip(1)[i - 1] == a[i]); assert(b.skip(1)[i - 1] == b[i]); }
            }
        }
        if seq_eq(a, b) {
            assert forall|i: int| 0 <= i < a.skip(1).len() implies (#[trigger] a.skip(1)[i]).eq_spec(&b.skip(1)[i]) by {
                assert(a.skip(1)[i] == a[i + 1]); assert(b.skip(1)[i] == b[i + 1]);
                assert(a[i + 1].eq_spec(&b[i + 1]));
            }
        }
    }
}

pub proof fn lemma_seq_refl<T: DoubleOps>(a: Seq<T>)
    ensures seq_cmp(a, a) == Ordering::Equal
    decreases a.len()
{
    if a.len() > 0 { T::law_refl(&a[0]); lemma_seq_refl(a.skip(1)); }
}

pub proof fn lemma_seq_antisym<T: DoubleOps>(a: Seq<T>, b: Seq<T>)
    ensures seq_cmp(a, b) == rev(seq_cmp(b, a))
    decreases a.len()
{
    if a.len() > 0 && b.len() > 0 {
        T::law_antisym(&a[0], &b[0]);
        lemma_seq_antisym(a.skip(1), b.skip(1));
    }
}

pub proof fn lemma_seq_trans<T: DoubleOps>(a: Seq<T>, b: Seq<T>, c: Seq<T>)
    ensures
        seq_cmp(a, b) != Ordering::Greater && seq_cmp(b, c) != Ordering::Greater ==> seq_cmp(a, c) != Ordering::Greater,
        seq_cmp(a, b) == Ordering::Equal && seq_cmp(b, c) == Ordering::Equal ==> seq_cmp(a, c) == Ordering::Equal,
    decreases a.len()
{
    if a.len() > 0 && b.len() > 0 && c.len() > 0 {
        T::law_trans(&a[0], &b[0], &c[0]);
        T::law_antisym(&a[0], &b[0]);
        T::law_antisym(&b[0], &c[0]);
        T::law_antisym(&a[0], &c[0]);
        T::law_trans(&c[0], &b[0], &a[0]);
        T::law_trans(&b[0], &c[0], &a[0]);
        T::law_trans(&c[0], &a[0], &b[0]);
        T::law_trans(&a[0], &c[0], &b[0]);
        T::law_trans(&b[0], &a[0], &c[0]);
        lemma_seq_trans(a.skip(1), b.skip(1), c.skip(1));
    }
}

// the words of a sequence of elements, in order
pub open spec fn flat<T: DoubleOps>(s: Seq<T>) -> Seq<u64>
    decreases s.len()
{
    if s.len() == 0 { Seq::<u64>::empty() } else { flat(s.drop_last()) + s.last().hash_words() }
}

pub proof fn lemma_flat_snoc<T: DoubleOps>(s: Seq<T>, i: int)
    requires 0 <= i < s.len()
    ensures flat(s.take(i + 1)) == flat(s.take(i)) + s[i].hash_words()
{
    assert(s.take(i + 1).drop_last() =~= s.take(i));
    assert(s.take(i + 1).last() == s[i]);
}

pub proof fn lemma_flat_eq<T: DoubleOps>(a: Seq<T>, b: Seq<T>)
    requires seq_eq(a, b)
    ensures flat(a) == flat(b)
    decreases a.len()
{
    if a.len() > 0 {
        T::law_hash(&a.last(), &b.last());
        assert(a.last().eq_spec(&b.last()));
        assert forall|i: int| 0 <= i < a.drop_last().len() implies (#[trigger] a.drop_last()[i]).eq_spec(&b.drop_last()[i]) by {
            assert(a.drop_last()[i] == a[i]);
            assert(b.drop_last()[i] == b[i]);
            assert(a[i].eq_spec(&b[i]));
        }
        lemma_flat_eq(a.drop_last(), b.drop_last());
    }
}

impl<T> DoubleOps for Vec<T>
where
    T: DoubleOps,
{
    open spec fn cmp_spec(&self, other: &Self) -> Ordering { seq_cmp(self@, other@) }
    open spec fn eq_spec(&self, other: &Self) -> bool { seq_eq(self@, other@) }

    proof fn law_eq_iff_cmp_equal(a: &Self, b: &Self) { lemma_seq_eq_iff(a@, b@); }
    proof fn law_refl(a: &Self) { lemma_seq_refl(a@); lemma_seq_eq_iff(a@, a@); }
    proof fn law_antisym(a: &Self, b: &Self) { lemma_seq_antisym(a@, b@); }
    proof fn law_trans(a: &Self, b: &Self, c: &Self) { lemma_seq_trans(a@, b@, c@); }

//@@ fn DoubleOps for Vec<T>::cmp vfn=Vec::cmp
//@@ loop 0
            invariant
                l <= self@.len(), l <= other@.len(),
                l == self@.len() || l == other@.len(),
                lhs@ == self@.subrange(0, l as int), rhs@ == other@.subrange(0, l as int),
                seq_cmp(self@, other@) == seq_cmp(self@.skip($LOOPVAR0 as int), other@.skip($LOOPVAR0 as int)),
//@@ loopbody 0
            proof { lemma_seq_cmp_step(self@, other@, $LOOPVAR0 as int); }
//@@ pre
        proof { lemma_seq_cmp_prefix(self@, other@, 0); }
//@@ end

//@@ fn DoubleOps for Vec<T>::eq vfn=Vec::eq
//@@ loop 0
            invariant
                self@.len() == other@.len(),
                forall|k: int| 0 <= k < $LOOPVAR0 ==> (#[trigger] self@[k]).eq_spec(&other@[k]),
//@@ end

    // L6 for lists of any length: the length word, then every element's words in order
    open spec fn hash_words(&self) -> Seq<u64> { seq![self@.len() as u64] + flat(self@) }
    proof fn law_hash(a: &Self, b: &Self) {
        if a.eq_spec(b) { lemma_flat_eq(a@, b@); }
    }

//@@ fn DoubleOps for Vec<T>::hash vfn=Vec::hash
//@@ subst for $LOOPVAR0 in $LOOPEXPR0 ==> for $LOOPVAR0 in it: $LOOPEXPR0
//@@ loop 0
            invariant
                0 <= it.index@ <= self@.len(),
                hasher.fed() == old(hasher).fed() + seq![self@.len() as u64] + flat(self@.take(it.index@ as int)),
//@@ loopbody 0
            proof { lemma_flat_snoc(self@, it.index@ as int); }
//@@ post
        proof { assert(self@.take(self@.len() as int) =~= self@); }
//@@ end
}

// ------------------------------------------------------------------------------------------- nesting witness
// The lifting is generic, so any nesting is lawful; this lemma instantiates it for the deepest shape the
// Conjure type mapping produces around doubles (optional<list<optional<double>>>) as a concrete witness.
pub proof fn witness_nested(a: &Option<Vec<Option<f64>>>, b: &Option<Vec<Option<f64>>>, c: &Option<Vec<Option<f64>>>)
    ensures
        a.eq_spec(a),
        a.eq_spec(b) <==> a.cmp_spec(b) == Ordering::Equal,
        a.cmp_spec(b) == rev(b.cmp_spec(a)),
        a.cmp_spec(b) != Ordering::Greater && b.cmp_spec(c) != Ordering::Greater ==> a.cmp_spec(c) != Ordering::Greater,
        a.eq_spec(b) ==> a.hash_words() == b.hash_words(),
{
    <Option<Vec<Option<f64>>> as DoubleOps>::law_hash(a, b);
    <Option<Vec<Option<f64>>> as DoubleOps>::law_refl(a);
    <Option<Vec<Option<f64>>> as DoubleOps>::law_eq_iff_cmp_equal(a, b);
    <Option<Vec<Option<f64>>> as DoubleOps>::law_antisym(a, b);
    <Option<Vec<Option<f64>>> as DoubleOps>::law_trans(a, b, c);
}

} // verus!
fn main() {}
