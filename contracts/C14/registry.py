"""C14 — Generated types with doubles have a lawful total order, equality and hash (runtime core)."""
import os, re
from vf import vx, Undecided

P = "conjure-object/src/private.rs"
D = "conjure-object/src/double_key.rs"

TRUSTED = [
    "rustc, Verus 0.2026.09.13 + z3, Kani 0.68 + CBMC 6.11",
    "educe expands #[educe(PartialEq/Ord/Hash(method(..)))] to field-wise lexicographic composition of the named methods",
    "the generator attaches those attributes to exactly the fields whose type lacks Eq (quantifier over programs: not decided here)",
    "ordered_float::OrderedFloat is NOT trusted: its code is executed by Kani in C14.K.f64.laws / C14.K.double_key.laws",
]
ASSUMPTIONS = [
    "Verus unit: the f64 instance is external_body; its laws are the statements discharged by Kani obligation C14.K.f64.laws for all f64 triples (cross-engine discharge)",
    "Verus unit: trait DoubleOps is mirrored by hand with ghost members; std::hash::Hasher / Hash are mirrored by a ghost model (the words fed so far; `<usize as Hash>::hash` feeds one word determined by the value) — ASSUMED to describe std",
    "Verus unit: Option<T>::hash is external_body (mem::discriminant has no Verus specification): its spec (tag word, then payload words) is assumed and discharged for f64 payloads by the complete Kani obligations C14.K.option_f64.laws / option_option_f64.laws; the law for optionals is proved from that spec",
    "usize::min, slice indexing, Range<usize> iteration, usize::cmp are specified by vstd",
    "cfg(kani) harness modules appended to scratch copies; executable text unchanged",
]
NOT_DECIDED = [
    "orders other than the four lawful combinations {None first|last} x {prefix first|last} (e.g. length-first ordering of lists) are not recognised by the Verus obligations and would be reported as a failed obligation",
    "DoubleOps for BTreeMap<K,V> (iterator chains with closures: outside Verus's subset; CBMC gives no answer for two entries in 7 min, nor for at most one entry in 10 min)",
    "which fields the generator decorates (C02/C03 territory)",
]

def VO(name, vfn, fn, desc, twin=None):
    return dict(name=name, vfn=vfn, functions=[P + "::" + fn] if fn else [], desc=desc, twin=twin or [])

# The property asks for *a* lawful total order, not for a particular one. If the code stops matching the primary
# specification (None first; a proper prefix first), the unit is re-verified against the other lawful choices.
_NONE_LAST = ("        (Some(_), None) => Ordering::Greater,   // empty optional sorts before a present one\n        (None, Some(_)) => Ordering::Less,",
              "        (Some(_), None) => Ordering::Less,   // variant: empty optional sorts after a present one\n        (None, Some(_)) => Ordering::Greater,")
_PREFIX_LAST = ("    else if a.len() == 0 { Ordering::Less }\n    else if b.len() == 0 { Ordering::Greater }",
                "    else if a.len() == 0 { Ordering::Greater }\n    else if b.len() == 0 { Ordering::Less }")
# L6 only asks that equal values feed identical words; where the length word goes (or whether there is one) is free
_HASH_SPEC = "seq![self@.len() as u64] + flat(self@) }"
_HASH_INV = "hasher.fed() == old(hasher).fed() + seq![self@.len() as u64] + flat(self@.take(it.index@ as int)),"
_LEN_LAST = [(_HASH_SPEC, "flat(self@) + seq![self@.len() as u64] }"), (_HASH_INV, "hasher.fed() == old(hasher).fed() + flat(self@.take(it.index@ as int)),")]
_NO_LEN = [(_HASH_SPEC, "flat(self@) }"), (_HASH_INV, "hasher.fed() == old(hasher).fed() + flat(self@.take(it.index@ as int)),")]
_ORDERS = [("", []), ("none-last", [_NONE_LAST]), ("prefix-last", [_PREFIX_LAST]), ("none-last+prefix-last", [_NONE_LAST, _PREFIX_LAST])]
_HASHES = [("", []), ("length-last", _LEN_LAST), ("no-length", _NO_LEN)]
_VARIANTS = [dict(name="+".join(x for x in (on, hn) if x), desc="alternative lawful order / hash layout", subst=osub + hsub)
             for (on, osub) in _ORDERS for (hn, hsub) in _HASHES if on or hn]

VERUS_UNITS = [dict(
    name="doubleops", template="doubleops.verus.rs", variants=_VARIANTS,
    obligations=[
        VO("C14.V.option.cmp.post", "Option::cmp", "DoubleOps for Option<T>::cmp", "Option<T>::cmp == spec (None < Some, Some/Some by element)", ["C14.K.option_f64.laws"]),
        VO("C14.V.option.eq.post", "Option::eq", "DoubleOps for Option<T>::eq", "Option<T>::eq == spec", ["C14.K.option_f64.laws"]),
        VO("C14.V.vec.cmp.post", "Vec::cmp", "DoubleOps for Vec<T>::cmp", "Vec<T>::cmp == lexicographic seq_cmp for every length (loop invariant)", ["C14.K.vec_f64.laws_len2"]),
        VO("C14.V.vec.eq.post", "Vec::eq", "DoubleOps for Vec<T>::eq", "Vec<T>::eq == same length and element-wise eq for every length", ["C14.K.vec_f64.laws_len2"]),
        dict(VO("C14.V.vec.hash.post", "Vec::hash", "DoubleOps for Vec<T>::hash", "Vec<T>::hash feeds the length word and then every element's words, in order, for every length (loop invariant over a ghost hasher); this pins one lawful layout as a proof device for L6", ["C14.K.vec_f64.hash_len2"]), soft=True),
        VO("C14.V.vec.law_hash", "Vec::law_hash", None, "lifting L6: equal lists feed identical words (any length)"),
        VO("C14.V.option.law_hash", "Option::law_hash", None, "lifting L6: equal optionals feed identical words"),
        VO("C14.V.lemma_flat_snoc", "lemma_flat_snoc", None, "lemma: words of a prefix extended by one element"),
        VO("C14.V.lemma_flat_eq", "lemma_flat_eq", None, "lemma: element-wise equal sequences feed identical words (induction)"),
        VO("C14.V.option.law_refl", "Option::law_refl", None, "lifting: T lawful => Option<T> reflexive"),
        VO("C14.V.option.law_eq_iff_cmp_equal", "Option::law_eq_iff_cmp_equal", None, "lifting: eq <=> cmp==Equal for Option<T>"),
        VO("C14.V.option.law_antisym", "Option::law_antisym", None, "lifting: antisymmetry for Option<T>"),
        VO("C14.V.option.law_trans", "Option::law_trans", None, "lifting: transitivity for Option<T>"),
        VO("C14.V.vec.law_refl", "Vec::law_refl", None, "lifting: T lawful => Vec<T> reflexive"),
        VO("C14.V.vec.law_eq_iff_cmp_equal", "Vec::law_eq_iff_cmp_equal", None, "lifting: eq <=> cmp==Equal for Vec<T>"),
        VO("C14.V.vec.law_antisym", "Vec::law_antisym", None, "lifting: antisymmetry for Vec<T>"),
        VO("C14.V.vec.law_trans", "Vec::law_trans", None, "lifting: transitivity for Vec<T>"),
        VO("C14.V.lemma_seq_cmp_prefix", "lemma_seq_cmp_prefix", None, "lemma: equal prefix reduces seq_cmp to the suffixes (induction)"),
        VO("C14.V.lemma_seq_cmp_step", "lemma_seq_cmp_step", None, "lemma: one unfolding of seq_cmp"),
        VO("C14.V.lemma_seq_eq_iff", "lemma_seq_eq_iff", None, "lemma: seq_cmp == Equal <=> seq_eq (induction)"),
        VO("C14.V.lemma_seq_refl", "lemma_seq_refl", None, "lemma (induction)"),
        VO("C14.V.lemma_seq_antisym", "lemma_seq_antisym", None, "lemma (induction)"),
        VO("C14.V.lemma_seq_trans", "lemma_seq_trans", None, "lemma (induction)"),
        VO("C14.V.witness_nested", "witness_nested", None, "Option<Vec<Option<f64>>> satisfies L1-L4 (instance of the generic lifting)"),
    ])]

def H(name, ob, file, fns, desc, kind="complete", bound=None, tier="quick", timeout=300):
    return dict(name=name, ob=ob, functions=[file + "::" + f for f in fns], desc=desc, kind=kind, bound=bound, tier=tier, timeout=timeout)

KANI_UNITS = [
    dict(name="private", crate="conjure-object", modpath="private::verif_c14",
         injections=[dict(file=P, module_file="private.kani.rs")],
         harnesses=[
             H("f64_laws", "C14.K.f64.laws", P, ["DoubleOps for f64::cmp", "DoubleOps for f64::eq", "DoubleOps for f64::hash"],
               "L1-L6 for all triples of f64 bit patterns (runs ordered_float)"),
             H("option_f64_laws", "C14.K.option_f64.laws", P, ["DoubleOps for Option<T>::cmp", "DoubleOps for Option<T>::eq", "DoubleOps for Option<T>::hash"],
               "L1-L6 for all triples of Option<f64>; Some/Some compares by payload"),
             H("option_option_f64_laws", "C14.K.option_option_f64.laws", P, ["DoubleOps for Option<T>::cmp", "DoubleOps for Option<T>::eq", "DoubleOps for Option<T>::hash"],
               "L1-L6 for all triples of Option<Option<f64>> (Some(None) vs None)"),
             H("wrapper_forwards", "C14.K.wrapper.forwards", P, ["PartialEq for DoubleOpsWrapper<'_,T>::eq", "Ord for DoubleOpsWrapper<'_,T>::cmp",
               "PartialOrd for DoubleOpsWrapper<'_,T>::partial_cmp", "Hash for DoubleOpsWrapper<'_,T>::hash"],
               "DoubleOpsWrapper's std traits are the DoubleOps methods"),
             H("vec_f64_pair_laws_len2", "C14.K.vec_f64.laws_len2", P, ["DoubleOps for Vec<T>::cmp", "DoubleOps for Vec<T>::eq"],
               "L1-L3 for pairs of Vec<f64> of length <= 2", kind="bounded", bound="len <= 2", timeout=600),
             H("vec_f64_pair_laws_len12_one_difference", "C14.K.vec_f64.laws_len12_one_difference", P, ["DoubleOps for Vec<T>::cmp", "DoubleOps for Vec<T>::eq"],
               "two 12-element lists differing in at most one arbitrary position by an arbitrary double: eq, cmp == Equal and antisymmetry agree with the element", kind="bounded", bound="len 12, one free element", timeout=600),
             H("vec_f64_hash_len2", "C14.K.vec_f64.hash_len2", P, ["DoubleOps for Vec<T>::hash"],
               "equal vectors feed the hasher identical streams", kind="bounded", bound="len <= 2", timeout=600),
             H("vec_f64_trans_len2", "C14.K.vec_f64.trans_len2", P, ["DoubleOps for Vec<T>::cmp"],
               "transitivity for triples of Vec<f64> of length <= 2", kind="bounded", bound="len <= 2", tier="thorough", timeout=1800),
         ]),
    dict(name="double_key", crate="conjure-object", modpath="double_key::verif_c14",
         injections=[dict(file=D, module_file="double_key.kani.rs")],
         harnesses=[
             H("double_key_laws", "C14.K.double_key.laws", D, ["PartialEq for DoubleKey::eq", "Ord for DoubleKey::cmp", "PartialOrd for DoubleKey::partial_cmp", "Hash for DoubleKey::hash"],
               "DoubleKey: Eq/Ord/PartialOrd/Hash lawful and mutually consistent for all f64 triples"),
         ]),
]

def scan_trait_shape(repo):
    """the hand-written trait mirror in the Verus unit must match the real trait's method set"""
    doc = vx(os.path.join(repo, P))
    sigs = sorted(it["sig"] for it in doc["items"] if it["kind"] == "fn" and it["key"].startswith("trait DoubleOps::"))
    want = sorted(["fn cmp(&self,other:&Self)->Ordering", "fn eq(&self,other:&Self)->bool", "fn hash<H>(&self,hasher:&mut H)where H:Hasher"])
    if [re.sub(r"\s+", "", s).rstrip(",") for s in sigs] != [re.sub(r"\s+", "", s) for s in want]:
        raise Undecided("trait DoubleOps changed shape: %s" % sigs)
    return True, "trait DoubleOps { cmp, eq, hash<H> }"

SCANS = [dict(name="C14.S.trait_shape", fn=scan_trait_shape, desc="syntactic: trait DoubleOps has the mirrored method set")]

MUTANTS = [
    dict(name="vec_cmp_skips_element0", file=P, **{"from": "for i in 0..l {", "to": "for i in 1..l {"},
         expect=["C14.V.vec.cmp.post", "C14.K.vec_f64.laws_len2"]),
    dict(name="option_cmp_some_some_always_equal", file=P, **{"from": "            (Some(a), Some(b)) => a.cmp(b),\n            (Some(_), None) => Ordering::Greater,", "to": "            (Some(_), Some(_)) => Ordering::Equal,\n            (Some(_), None) => Ordering::Greater,"},
         expect=["C14.V.option.cmp.post", "C14.K.option_f64.laws"]),
    dict(name="f64_eq_uses_primitive", file=P, **{"from": "OrderedFloat(*self) == OrderedFloat(*other)", "to": "*self == *other"},
         expect=["C14.K.f64.laws"]),
    dict(name="double_key_hash_raw_bits", file=D, **{"from": "OrderedFloat(self.0).hash(state)", "to": "self.0.to_bits().hash(state)"},
         expect=["C14.K.double_key.laws"]),
]

BENIGN = [
    # another lawful hash layout: the length word after the elements
    dict(name="vec_hash_length_last", file=P, **{"from": "        self.len().hash(hasher);\n        for v in self {\n            v.hash(hasher);\n        }", "to": "        for v in self {\n            v.hash(hasher);\n        }\n        self.len().hash(hasher);"}),
    # a different but equally lawful order (None last): the laws of the property still hold; must not be reported as a violation
    dict(name="option_none_sorts_last_consistently", file=P, **{"from": "(Some(_), None) => Ordering::Greater,\n            (None, Some(_)) => Ordering::Less,", "to": "(Some(_), None) => Ordering::Less,\n            (None, Some(_)) => Ordering::Greater,"}),
    dict(name="vec_eq_index_renamed", file=P, **{"from": "        for i in 0..self.len() {\n            if !self[i].eq(&other[i]) {", "to": "        for idx in 0..self.len() {\n            if !self[idx].eq(&other[idx]) {"}),
    dict(name="vec_cmp_local_renamed", file=P, **{"from": "        let l = usize::min(self.len(), other.len());\n\n        let lhs = &self[..l];\n        let rhs = &other[..l];", "to": "        let l = usize::min(other.len(), self.len());\n\n        let lhs = &self[..l];\n        let rhs = &other[..l];"}),
    dict(name="option_eq_arms_reordered", file=P, **{"from": "            (Some(a), Some(b)) => a.eq(b),\n            (Some(_), None) | (None, Some(_)) => false,\n            (None, None) => true,", "to": "            (None, None) => true,\n            (Some(a), Some(b)) => a.eq(b),\n            (Some(_), None) | (None, Some(_)) => false,"}),
]
