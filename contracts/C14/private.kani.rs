// Kani harness module for C14, appended to a scratch copy of conjure-object/src/private.rs.
#[cfg(kani)]
mod verif_c14 {
    use super::*;

    /// Recording hasher: the ghost "hasher input stream" of law L6 (equal values feed identical streams).
    pub struct Rec {
        pub n: usize,
        pub w: [u64; 8],
    }
    impl Rec {
        pub fn new() -> Rec {
            Rec { n: 0, w: [0; 8] }
        }
        fn push(&mut self, v: u64) {
            if self.n < 8 {
                self.w[self.n] = v;
            }
            self.n += 1;
        }
    }
    impl Hasher for Rec {
        fn finish(&self) -> u64 {
            0
        }
        fn write(&mut self, bytes: &[u8]) {
            let mut v = 0u64;
            let mut i = 0;
            while i < bytes.len() && i < 8 {
                v |= (bytes[i] as u64) << (8 * i);
                i += 1;
            }
            self.push(v ^ ((bytes.len() as u64) << 56));
        }
        fn write_u64(&mut self, v: u64) {
            self.push(v);
        }
        fn write_usize(&mut self, v: usize) {
            self.push(v as u64 ^ 0x5555_0000_0000_0000);
        }
        fn write_isize(&mut self, v: isize) {
            self.push(v as u64 ^ 0x3333_0000_0000_0000);
        }
    }

    /// element-wise comparison (array `==` lowers to memcmp over 64 bytes, which needs a large unwind)
    pub fn same(a: &(usize, [u64; 8]), b: &(usize, [u64; 8])) -> bool {
        a.0 == b.0
            && a.1[0] == b.1[0]
            && a.1[1] == b.1[1]
            && a.1[2] == b.1[2]
            && a.1[3] == b.1[3]
            && a.1[4] == b.1[4]
            && a.1[5] == b.1[5]
            && a.1[6] == b.1[6]
            && a.1[7] == b.1[7]
    }

    pub fn stream<T: DoubleOps>(v: &T) -> (usize, [u64; 8]) {
        let mut r = Rec::new();
        DoubleOps::hash(v, &mut r);
        (r.n, r.w)
    }

    /// L1-L6 for three values of a DoubleOps type
    pub fn laws<T: DoubleOps>(a: &T, b: &T, c: &T) {
        // L1 reflexive (NaN equals NaN)
        assert!(DoubleOps::eq(a, a));
        assert!(DoubleOps::cmp(a, a) == Ordering::Equal);
        // L2 eq <=> cmp == Equal
        assert!(DoubleOps::eq(a, b) == (DoubleOps::cmp(a, b) == Ordering::Equal));
        // L3 antisymmetry
        assert!(DoubleOps::cmp(a, b) == DoubleOps::cmp(b, a).reverse());
        // L4 transitivity of <= and of Equal
        if DoubleOps::cmp(a, b) != Ordering::Greater && DoubleOps::cmp(b, c) != Ordering::Greater {
            assert!(DoubleOps::cmp(a, c) != Ordering::Greater);
        }
        if DoubleOps::cmp(a, b) == Ordering::Equal && DoubleOps::cmp(b, c) == Ordering::Equal {
            assert!(DoubleOps::cmp(a, c) == Ordering::Equal);
        }
        // L6 equal values feed the hasher identical streams
        if DoubleOps::eq(a, b) {
            assert!(same(&stream(a), &stream(b)));
        }
    }

    #[kani::proof]
    fn f64_laws() {
        let a: f64 = kani::any();
        let b: f64 = kani::any();
        let c: f64 = kani::any();
        laws(&a, &b, &c);
        // L5 NaN is greatest and all NaNs are equal; non-NaN values order numerically
        if a.is_nan() {
            assert!(DoubleOps::cmp(&a, &b) != Ordering::Less);
            assert!(DoubleOps::eq(&a, &b) == b.is_nan());
        }
        if !a.is_nan() && !b.is_nan() {
            assert!((DoubleOps::cmp(&a, &b) == Ordering::Less) == (a < b));
            assert!(DoubleOps::eq(&a, &b) == (a == b));
        }
        kani::cover!(a.is_nan() && b.is_nan() && a.to_bits() != b.to_bits());
        kani::cover!(a == 0.0 && b == 0.0 && a.to_bits() != b.to_bits());
        kani::cover!(a.is_infinite());
    }

    #[kani::proof]
    fn option_f64_laws() {
        let a: Option<f64> = kani::any();
        let b: Option<f64> = kani::any();
        let c: Option<f64> = kani::any();
        laws(&a, &b, &c);
        // (which of None / Some sorts first is not part of the property; only the laws above are asserted.)
        // Some/Some compares by payload: needed for "NaN greatest" and consistency to carry into optionals
        if let (Some(x), Some(y)) = (a, b) {
            assert!(DoubleOps::cmp(&a, &b) == DoubleOps::cmp(&x, &y));
            assert!(DoubleOps::eq(&a, &b) == DoubleOps::eq(&x, &y));
        }
        kani::cover!(a.is_none() && b.is_some());
        kani::cover!(a.is_some() && b.is_some());
    }

    #[kani::proof]
    fn option_option_f64_laws() {
        let a: Option<Option<f64>> = kani::any();
        let b: Option<Option<f64>> = kani::any();
        let c: Option<Option<f64>> = kani::any();
        laws(&a, &b, &c);
        kani::cover!(a == Some(None) && b.is_none());
    }

    // DoubleOpsWrapper (used for map values): std traits agree with the DoubleOps methods
    #[kani::proof]
    fn wrapper_forwards() {
        let a: f64 = kani::any();
        let b: f64 = kani::any();
        let (wa, wb) = (DoubleOpsWrapper(&a), DoubleOpsWrapper(&b));
        assert!((wa == wb) == DoubleOps::eq(&a, &b));
        assert!(Ord::cmp(&wa, &wb) == DoubleOps::cmp(&a, &b));
        assert!(PartialOrd::partial_cmp(&wa, &wb) == Some(DoubleOps::cmp(&a, &b)));
        let mut r1 = Rec::new();
        Hash::hash(&wa, &mut r1);
        assert!(same(&(r1.n, r1.w), &stream(&a)));
        kani::cover!(true);
    }

    // bounded: Vec<f64> up to length 2 (the unbounded statement for cmp/eq is the Verus unit; hash has no
    // Verus spec, so the hash law for vectors is bounded only)
    fn any_vec2() -> Vec<f64> {
        let n: u8 = kani::any();
        kani::assume(n <= 2);
        let mut v = Vec::with_capacity(2);
        if n >= 1 {
            v.push(kani::any());
        }
        if n >= 2 {
            v.push(kani::any());
        }
        v
    }

    #[kani::proof]
    #[kani::unwind(10)]
    fn vec_f64_pair_laws_len2() {
        let a = any_vec2();
        let b = any_vec2();
        assert!(DoubleOps::eq(&a, &a));
        assert!(DoubleOps::cmp(&a, &a) == Ordering::Equal);
        assert!(DoubleOps::eq(&a, &b) == (DoubleOps::cmp(&a, &b) == Ordering::Equal));
        assert!(DoubleOps::cmp(&a, &b) == DoubleOps::cmp(&b, &a).reverse());
        // (where a proper prefix sorts, and which element decides, is not part of the property; only the laws are asserted)
        kani::cover!(a.len() == 2 && b.len() == 1);
        kani::cover!(a.len() == 2 && b.len() == 2 && DoubleOps::eq(&a, &b));
        std::mem::forget(a);
        std::mem::forget(b);
    }

    // longer lists: two 12-element lists that differ in at most one (arbitrary) position, by an arbitrary double; a
    // comparison that looks at blocks, a prefix or only some of the elements shows here
    #[kani::proof]
    #[kani::unwind(16)]
    fn vec_f64_pair_laws_len12_one_difference() {
        let mut a: Vec<f64> = Vec::with_capacity(12);
        let mut b: Vec<f64> = Vec::with_capacity(12);
        let i: usize = kani::any();
        kani::assume(i < 12);
        let x: f64 = kani::any();
        let mut k = 0;
        while k < 12 {
            a.push(k as f64);
            b.push(if k == i { x } else { k as f64 });
            k += 1;
        }
        let differ = !DoubleOps::eq(&(i as f64), &x);
        assert!(DoubleOps::eq(&a, &b) == !differ);
        assert!((DoubleOps::cmp(&a, &b) == Ordering::Equal) == !differ);
        assert!(DoubleOps::cmp(&a, &b) == DoubleOps::cmp(&b, &a).reverse());
        kani::cover!(differ && i == 3);
        kani::cover!(differ && i == 11);
        kani::cover!(!differ);
        std::mem::forget(a);
        std::mem::forget(b);
    }

    #[kani::proof]
    #[kani::unwind(10)]
    fn vec_f64_hash_len2() {
        let a = any_vec2();
        let b = any_vec2();
        if DoubleOps::eq(&a, &b) {
            assert!(same(&stream(&a), &stream(&b)));
        }
        kani::cover!(a.len() == 2 && DoubleOps::eq(&a, &b));
        std::mem::forget(a);
        std::mem::forget(b);
    }

    #[kani::proof]
    #[kani::unwind(10)]
    fn vec_f64_trans_len2() {
        let a = any_vec2();
        let b = any_vec2();
        let c = any_vec2();
        if DoubleOps::cmp(&a, &b) != Ordering::Greater && DoubleOps::cmp(&b, &c) != Ordering::Greater {
            assert!(DoubleOps::cmp(&a, &c) != Ordering::Greater);
        }
        kani::cover!(a.len() == 2 && b.len() == 2 && c.len() == 2);
        std::mem::forget(a);
        std::mem::forget(b);
        std::mem::forget(c);
    }
}
