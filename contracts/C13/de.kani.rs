// Kani harness module for C13, appended to a scratch copy of conjure-object/src/any/de.rs
#[cfg(kani)]
mod verif_c13 {
    use super::*;
//@@COMMON@@

    // ---- A. scalar round trip: Any::new(v)?.deserialize_into::<T>()? == v, all values ---------------
    macro_rules! roundtrip {
        ($name:ident, $t:ty, $eq:expr) => {
            #[kani::proof]
    #[kani::stub(core::fmt::write, nofmt_write)]
            fn $name() {
                let v: $t = kani::any();
                match Any::new(v) {
                    Ok(a) => match a.deserialize_into::<$t>() {
                        Ok(back) => assert!($eq(&back, &v)),
                        Err(_) => assert!(false),
                    },
                    Err(_) => assert!(false),
                }
                kani::cover!(true);
            }
        };
    }
    fn same<T: PartialEq>(a: &T, b: &T) -> bool {
        a == b
    }
    fn same_f32(a: &f32, b: &f32) -> bool {
        a.to_bits() == b.to_bits()
    }
    fn same_f64(a: &f64, b: &f64) -> bool {
        a.to_bits() == b.to_bits()
    }
    roundtrip!(rt_bool, bool, same);
    roundtrip!(rt_i8, i8, same);
    roundtrip!(rt_i16, i16, same);
    roundtrip!(rt_i32, i32, same);
    roundtrip!(rt_i64, i64, same);
    roundtrip!(rt_i128, i128, same);
    roundtrip!(rt_u8, u8, same);
    roundtrip!(rt_u16, u16, same);
    roundtrip!(rt_u32, u32, same);
    roundtrip!(rt_u64, u64, same);
    roundtrip!(rt_u128, u128, same);
    roundtrip!(rt_f32, f32, same_f32);
    roundtrip!(rt_f64, f64, same_f64);
    roundtrip!(rt_unit, (), same);
    // Option<T>: the two cases are separate harnesses so that the stored variant is concrete (a symbolic
    // variant makes CBMC unroll the recursive drop glue of Any without bound)
    macro_rules! roundtrip_some {
        ($name:ident, $t:ty, $eq:expr) => {
            #[kani::proof]
    #[kani::stub(core::fmt::write, nofmt_write)]
            fn $name() {
                let v: $t = kani::any();
                match Any::new(Some(v)) {
                    Ok(a) => match a.deserialize_into::<Option<$t>>() {
                        Ok(Some(back)) => assert!($eq(&back, &v)),
                        _ => assert!(false),
                    },
                    Err(_) => assert!(false),
                }
                kani::cover!(true);
            }
        };
    }
    roundtrip_some!(rt_opt_i64_some, i64, same);
    roundtrip_some!(rt_opt_f64_some, f64, same_f64);

    #[kani::proof]
    #[kani::stub(core::fmt::write, nofmt_write)]
    fn rt_opt_none() {
        let a = Any::new(None::<i64>).unwrap();
        assert!(a.deserialize_into::<Option<i64>>().unwrap().is_none());
        let b = Any::new(None::<f64>).unwrap();
        assert!(b.deserialize_into::<Option<f64>>().unwrap().is_none());
        kani::cover!(true);
    }

    #[kani::proof]
    #[kani::stub(core::fmt::write, nofmt_write)]
    #[kani::unwind(6)]
    fn rt_char() {
        let v: char = kani::any();
        match Any::new(v) {
            Ok(a) => match a.deserialize_into::<char>() {
                Ok(back) => assert!(back == v),
                Err(_) => assert!(false),
            },
            Err(_) => assert!(false),
        }
        kani::cover!(v as u32 > 0xffff);
    }

    // ---- A2. strings and binary (bounded) ----------------------------------------------------------------------
    #[kani::proof]
    #[kani::stub(core::fmt::write, nofmt_write)]
    #[kani::unwind(8)]
    fn rt_string_len2() {
        let bytes: [u8; 2] = kani::any();
        let len: usize = kani::any();
        kani::assume(len <= 2);
        if let Ok(st) = std::str::from_utf8(&bytes[..len]) {
            match Any::new(st) {
                Ok(a) => match a.deserialize_into::<String>() {
                    Ok(back) => {
                        assert!(back.as_bytes().len() == len);
                        assert!(len < 1 || back.as_bytes()[0] == bytes[0]);
                        assert!(len < 2 || back.as_bytes()[1] == bytes[1]);
                        std::mem::forget(back);
                    }
                    Err(_) => assert!(false),
                },
                Err(_) => assert!(false),
            }
        }
        kani::cover!(len == 2);
    }

    /// what serde_bytes::ByteBuf does
    pub struct Blob(pub Vec<u8>);
    impl serde::Serialize for Blob {
        fn serialize<S: serde::Serializer>(&self, s: S) -> Result<S::Ok, S::Error> {
            s.serialize_bytes(&self.0)
        }
    }
    impl<'de> Deserialize<'de> for Blob {
        fn deserialize<D: Deserializer<'de>>(d: D) -> Result<Blob, D::Error> {
            struct BV;
            impl<'de> Visitor<'de> for BV {
                type Value = Blob;
                fn expecting(&self, _: &mut fmt::Formatter<'_>) -> fmt::Result {
                    Ok(())
                }
                fn visit_byte_buf<E: de::Error>(self, v: Vec<u8>) -> Result<Blob, E> {
                    Ok(Blob(v))
                }
                fn visit_bytes<E: de::Error>(self, v: &[u8]) -> Result<Blob, E> {
                    Ok(Blob(v.to_vec()))
                }
            }
            d.deserialize_byte_buf(BV)
        }
    }

    #[kani::proof]
    #[kani::stub(core::fmt::write, nofmt_write)]
    #[kani::unwind(8)]
    fn rt_bytes_len2() {
        let b: [u8; 2] = kani::any();
        let mut v = Vec::with_capacity(2);
        v.push(b[0]);
        v.push(b[1]);
        match Any::new(Blob(v)) {
            Ok(a) => match a.deserialize_into::<Blob>() {
                Ok(back) => {
                    assert!(back.0.len() == 2 && back.0[0] == b[0] && back.0[1] == b[1]);
                    std::mem::forget(back);
                }
                Err(_) => assert!(false),
            },
            Err(_) => assert!(false),
        }
        kani::cover!(true);
    }

    // long payloads (a short-string or small-buffer fast path with a slip in the general path shows here)
    #[kani::proof]
    #[kani::stub(core::fmt::write, nofmt_write)]
    #[kani::unwind(44)]
    fn rt_string_and_bytes_40() {
        let lit = "0123456789abcdefghijABCDEFGHIJ!@#$%^&*()";
        match Any::new(lit) {
            Ok(a) => match a.deserialize_into::<String>() {
                Ok(back) => {
                    let (x, y) = (back.as_bytes(), lit.as_bytes());
                    assert!(x.len() == 40 && y.len() == 40);
                    let mut i = 0;
                    while i < 40 {
                        assert!(x[i] == y[i]);
                        i += 1;
                    }
                    std::mem::forget(back);
                }
                Err(_) => assert!(false),
            },
            Err(_) => assert!(false),
        }
        let mut v = Vec::with_capacity(40);
        let mut i = 0;
        while i < 40 {
            v.push((i as u8).wrapping_mul(7).wrapping_add(200));
            i += 1;
        }
        match Any::new(Blob(v)) {
            Ok(a) => match a.deserialize_into::<Blob>() {
                Ok(back) => {
                    assert!(back.0.len() == 40);
                    let mut i = 0;
                    while i < 40 {
                        assert!(back.0[i] == (i as u8).wrapping_mul(7).wrapping_add(200));
                        i += 1;
                    }
                    std::mem::forget(back);
                }
                Err(_) => assert!(false),
            },
            Err(_) => assert!(false),
        }
        kani::cover!(true);
    }

    // ---- B. `any` is the identity on scalar events: visitor event in == serializer event out ----------
    macro_rules! event_identity {
        ($name:ident, $visit:ident, $t:ty, $ev:expr) => {
            #[kani::proof]
    #[kani::stub(core::fmt::write, nofmt_write)]
            fn $name() {
                let v: $t = kani::any();
                match AnyVisitor.$visit::<MockErr>(v) {
                    Ok(a) => {
                        assert!(equiv(emitted(&a), $ev(v)));
                        std::mem::forget(a);
                    }
                    Err(_) => assert!(false),
                }
                kani::cover!(true);
            }
        };
    }
    event_identity!(ev_bool, visit_bool, bool, Ev::Bool);
    event_identity!(ev_i8, visit_i8, i8, Ev::I8);
    event_identity!(ev_i16, visit_i16, i16, Ev::I16);
    event_identity!(ev_i32, visit_i32, i32, Ev::I32);
    event_identity!(ev_i64, visit_i64, i64, Ev::I64);
    event_identity!(ev_i128, visit_i128, i128, Ev::I128);
    event_identity!(ev_u8, visit_u8, u8, Ev::U8);
    event_identity!(ev_u16, visit_u16, u16, Ev::U16);
    event_identity!(ev_u32, visit_u32, u32, Ev::U32);
    event_identity!(ev_u64, visit_u64, u64, Ev::U64);
    event_identity!(ev_u128, visit_u128, u128, Ev::U128);
    event_identity!(ev_char, visit_char, char, Ev::Char);
    fn f32ev(v: f32) -> Ev {
        Ev::F32(v.to_bits())
    }
    fn f64ev(v: f64) -> Ev {
        Ev::F64(v.to_bits())
    }
    event_identity!(ev_f32, visit_f32, f32, f32ev);
    event_identity!(ev_f64, visit_f64, f64, f64ev);

    // strings and bytes: every visit form stores the same text / bytes, which are re-emitted as a string / bytes event
    #[kani::proof]
    #[kani::stub(core::fmt::write, nofmt_write)]
    #[kani::unwind(6)]
    fn ev_strings_and_bytes() {
        let b: [u8; 2] = kani::any();
        kani::assume(b[0] < 128 && b[1] < 128);
        let s = std::str::from_utf8(&b).unwrap();
        let want = Ev::Str(2, head(&b));
        let a = AnyVisitor.visit_str::<MockErr>(s).unwrap();
        assert!(emitted(&a) == want);
        std::mem::forget(a);
        let a = AnyVisitor.visit_string::<MockErr>(s.to_string()).unwrap();
        assert!(emitted(&a) == want);
        std::mem::forget(a);
        let a = AnyVisitor.visit_borrowed_str::<MockErr>("ab").unwrap();
        assert!(emitted(&a) == Ev::Str(2, head(b"ab")));
        std::mem::forget(a);
        let wantb = Ev::Bytes(2, head(&b));
        let a = AnyVisitor.visit_bytes::<MockErr>(&b).unwrap();
        assert!(emitted(&a) == wantb);
        std::mem::forget(a);
        let mut v = Vec::with_capacity(2);
        v.push(b[0]);
        v.push(b[1]);
        let a = AnyVisitor.visit_byte_buf::<MockErr>(v).unwrap();
        assert!(emitted(&a) == wantb);
        std::mem::forget(a);
        kani::cover!(true);
    }

    #[kani::proof]
    #[kani::stub(core::fmt::write, nofmt_write)]
    fn ev_unit_none() {
        let a = AnyVisitor.visit_unit::<MockErr>().unwrap();
        assert!(emitted(&a) == Ev::Unit);
        let b = AnyVisitor.visit_none::<MockErr>().unwrap();
        // JSON null either way
        assert!(emitted(&b) == Ev::Unit);
        kani::cover!(true);
    }

    // ---- C. serializing the dynamic value emits the same scalar event as serializing the original -------
    macro_rules! same_event {
        ($name:ident, $t:ty) => {
            #[kani::proof]
    #[kani::stub(core::fmt::write, nofmt_write)]
            fn $name() {
                let v: $t = kani::any();
                let direct = emitted(&v);
                match Any::new(v) {
                    Ok(a) => {
                        assert!(equiv(emitted(&a), direct));
                        std::mem::forget(a);
                    }
                    Err(_) => assert!(false),
                }
                kani::cover!(true);
            }
        };
    }
    same_event!(se_bool, bool);
    same_event!(se_i8, i8);
    same_event!(se_i16, i16);
    same_event!(se_i32, i32);
    same_event!(se_i64, i64);
    same_event!(se_i128, i128);
    same_event!(se_u8, u8);
    same_event!(se_u16, u16);
    same_event!(se_u32, u32);
    same_event!(se_u64, u64);
    same_event!(se_u128, u128);
    same_event!(se_f32, f32);
    same_event!(se_f64, f64);

    // ---- D. coercions shared with direct JSON parsing ---------------------------------------------------
    macro_rules! coerce_float {
        ($name:ident, $lit:expr, $check64:expr, $check32:expr) => {
            #[kani::proof]
    #[kani::stub(core::fmt::write, nofmt_write)]
            #[kani::unwind(12)]
            fn $name() {
                let x: f64 = Any(Inner::String($lit.to_string())).deserialize_into().unwrap();
                let y: f32 = Any(Inner::String($lit.to_string())).deserialize_into().unwrap();
                assert!($check64(x));
                assert!($check32(y));
                kani::cover!(true);
            }
        };
    }
    coerce_float!(coerce_nan, "NaN", |x: f64| x.is_nan(), |y: f32| y.is_nan());
    coerce_float!(coerce_inf, "Infinity", |x: f64| x == f64::INFINITY, |y: f32| y == f32::INFINITY);
    coerce_float!(coerce_neg_inf, "-Infinity", |x: f64| x == f64::NEG_INFINITY, |y: f32| y == f32::NEG_INFINITY);

    // any other string is NOT coerced: it reaches the visitor as a string
    struct WantStr;
    impl<'de> Visitor<'de> for WantStr {
        type Value = (usize, [u8; 4]);
        fn expecting(&self, _: &mut fmt::Formatter<'_>) -> fmt::Result {
            Ok(())
        }
        fn visit_string<E: de::Error>(self, v: String) -> Result<Self::Value, E> {
            let r = (v.len(), head(v.as_bytes()));
            std::mem::forget(v);
            Ok(r)
        }
        fn visit_f64<E: de::Error>(self, _: f64) -> Result<Self::Value, E> {
            Ok((usize::MAX, [0; 4]))
        }
        fn visit_f32<E: de::Error>(self, _: f32) -> Result<Self::Value, E> {
            Ok((usize::MAX, [0; 4]))
        }
    }

    macro_rules! coerce_other {
        ($name:ident, $n:expr) => {
            #[kani::proof]
            #[kani::stub(core::fmt::write, nofmt_write)]
            #[kani::unwind(12)]
            fn $name() {
                let b: [u8; $n] = kani::any();
                let n: usize = kani::any();
                kani::assume(n <= $n);
                if let Ok(s) = std::str::from_utf8(&b[..n]) {
                    // "NaN" is the only special of at most three bytes
                    let special = s == "NaN";
                    let a = Any(Inner::String(s.to_string()));
                    let r = a.deserialize_f64(WantStr).unwrap();
                    if special {
                        assert!(r.0 == usize::MAX);
                    } else {
                        assert!(r.0 == n && r.1 == head(&b[..n]));
                    }
                }
                kani::cover!(true);
            }
        };
    }
    coerce_other!(coerce_other_strings_len2, 2);
    coerce_other!(coerce_other_strings_len3, 3);

    // ---- E. option / unit views -----------------------------------------------------------------------
    #[kani::proof]
    #[kani::stub(core::fmt::write, nofmt_write)]
    fn option_view() {
        let v: i64 = kani::any();
        let some: Option<i64> = Any(Inner::I64(v)).deserialize_into().unwrap();
        let none: Option<i64> = Any(Inner::Null).deserialize_into().unwrap();
        assert!(some == Some(v) && none.is_none());
        kani::cover!(true);
    }

    // ---- E2. newtype structs (what #[derive(Serialize, Deserialize)] generates for `struct W(i64);`) --------------
    #[derive(PartialEq)]
    pub struct W(pub i64);
    impl serde::Serialize for W {
        fn serialize<S: serde::Serializer>(&self, s: S) -> Result<S::Ok, S::Error> {
            s.serialize_newtype_struct("W", &self.0)
        }
    }
    impl<'de> Deserialize<'de> for W {
        fn deserialize<D: Deserializer<'de>>(d: D) -> Result<W, D::Error> {
            struct V;
            impl<'de> Visitor<'de> for V {
                type Value = W;
                fn expecting(&self, _: &mut fmt::Formatter<'_>) -> fmt::Result {
                    Ok(())
                }
                fn visit_newtype_struct<D: Deserializer<'de>>(self, d: D) -> Result<W, D::Error> {
                    i64::deserialize(d).map(W)
                }
                fn visit_seq<A: SeqAccess<'de>>(self, mut a: A) -> Result<W, A::Error> {
                    match a.next_element()? {
                        Some(x) => Ok(W(x)),
                        None => Err(de::Error::invalid_length(0, &self)),
                    }
                }
            }
            d.deserialize_newtype_struct("W", V)
        }
    }

    #[kani::proof]
    #[kani::stub(core::fmt::write, nofmt_write)]
    fn rt_newtype_struct() {
        let v: i64 = kani::any();
        match Any::new(W(v)) {
            Ok(a) => match a.deserialize_into::<W>() {
                Ok(back) => assert!(back.0 == v),
                Err(_) => assert!(false),
            },
            Err(_) => assert!(false),
        }
        kani::cover!(true);
    }

    // ---- F. container frames, one step at a time (recursive drop glue of Any never unrolled) ------------
    #[kani::proof]
    #[kani::stub(core::fmt::write, nofmt_write)]
    #[kani::unwind(4)]
    fn seq_deserializer_steps() {
        let a: u8 = kani::any();
        let b: i64 = kani::any();
        let mut d = SeqDeserializer(vec![Any(Inner::U8(a)), Any(Inner::I64(b))].into_iter());
        assert!(SeqAccess::size_hint(&d) == Some(2));
        let x: Option<u8> = SeqAccess::next_element(&mut d).unwrap();
        let y: Option<i64> = SeqAccess::next_element(&mut d).unwrap();
        let z: Option<u8> = SeqAccess::next_element(&mut d).unwrap();
        // elements come back unchanged, in order, and the sequence ends
        assert!(x == Some(a) && y == Some(b) && z.is_none());
        std::mem::forget(d);
        kani::cover!(true);
    }

    #[kani::proof]
    #[kani::stub(core::fmt::write, nofmt_write)]
    #[kani::unwind(4)]
    fn visit_seq_collects_in_order() {
        let a: u8 = kani::any();
        let b: i64 = kani::any();
        let d = SeqDeserializer(vec![Any(Inner::U8(a)), Any(Inner::I64(b))].into_iter());
        let out = AnyVisitor.visit_seq(d).unwrap();
        match &out.0 {
            Inner::Seq(v) => {
                assert!(v.len() == 2);
                assert!(equiv(emitted(&v[0]), Ev::U8(a)));
                assert!(equiv(emitted(&v[1]), Ev::I64(b)));
            }
            _ => assert!(false),
        }
        std::mem::forget(out);
        kani::cover!(true);
    }

    #[kani::proof]
    #[kani::stub(core::fmt::write, nofmt_write)]
    fn map_deserializer_value_step() {
        // the value half of an entry: handed to the seed unchanged (what the deserializer keeps afterwards is its own business:
        // serde's protocol asks for each value once)
        let v: i64 = kani::any();
        let mut d = MapDeserializer {
            it: BTreeMap::new().into_iter(),
            value: Some(Any(Inner::I64(v))),
        };
        let got: i64 = MapAccess::next_value(&mut d).unwrap();
        assert!(got == v);
        std::mem::forget(d);
        kani::cover!(true);
    }

    // ---- G. map keys: string form read back as the static key type ----------------------------------------
    #[kani::proof]
    #[kani::stub(core::fmt::write, nofmt_write)]
    #[kani::unwind(8)]
    fn key_bool_true() {
        assert!(bool::deserialize(KeyDeserializer(Any(Inner::String("true".to_string())))).unwrap());
        kani::cover!(true);
    }

    #[kani::proof]
    #[kani::stub(core::fmt::write, nofmt_write)]
    #[kani::unwind(8)]
    fn key_bool_false() {
        assert!(!bool::deserialize(KeyDeserializer(Any(Inner::String("false".to_string())))).unwrap());
        kani::cover!(true);
    }

    #[kani::proof]
    #[kani::stub(core::fmt::write, nofmt_write)]
    fn key_native_scalars_pass_through() {
        // keys that are already typed (from Any::new on a map with integer keys) keep their value
        let v: i32 = kani::any();
        let got = i32::deserialize(KeyDeserializer(Any(Inner::I32(v)))).unwrap();
        assert!(got == v);
        let w: u64 = kani::any();
        let got = u64::deserialize(KeyDeserializer(Any(Inner::U64(w)))).unwrap();
        assert!(got == w);
        let f: f64 = kani::any();
        let got = f64::deserialize(KeyDeserializer(Any(Inner::F64(OrderedFloat(f))))).unwrap();
        assert!(got.to_bits() == f.to_bits());
        kani::cover!(true);
    }

    #[kani::proof]
    #[kani::stub(core::fmt::write, nofmt_write)]
    #[kani::unwind(8)]
    fn key_i32_from_string_len3() {
        let b: [u8; 3] = kani::any();
        let n: usize = kani::any();
        kani::assume(n >= 1 && n <= 3);
        if let Ok(s) = std::str::from_utf8(&b[..n]) {
            if let Ok(want) = s.parse::<i32>() {
                let k = KeyDeserializer(Any(Inner::String(s.to_string())));
                let got = i32::deserialize(k).unwrap();
                assert!(got == want);
            }
        }
        kani::cover!(true);
    }

    // long numeric keys (conjure-serde writes double keys in plain decimal, 128-bit keys have up to 40 characters):
    // every key the target type can parse must be handed over parsed, whatever its length
    #[kani::proof]
    #[kani::stub(core::fmt::write, nofmt_write)]
    #[kani::unwind(24)]
    fn key_long_integer_literals() {
        let k = KeyDeserializer(Any(Inner::String("100000000000000000001".to_string())));
        assert!(u128::deserialize(k).unwrap() == 100000000000000000001u128);
        kani::cover!(true);
    }

    // the ends of the 64-bit ranges and a wide negative key: each width is parsed with its own parser, not a narrower or
    // differently signed one
    #[kani::proof]
    #[kani::stub(core::fmt::write, nofmt_write)]
    #[kani::unwind(24)]
    fn key_extreme_integer_literals() {
        let k = KeyDeserializer(Any(Inner::String("18446744073709551615".to_string())));
        assert!(u64::deserialize(k).unwrap() == u64::MAX);
        let k = KeyDeserializer(Any(Inner::String("-9223372036854775808".to_string())));
        assert!(i64::deserialize(k).unwrap() == i64::MIN);
        let k = KeyDeserializer(Any(Inner::String("-100000000000000000001".to_string())));
        assert!(i128::deserialize(k).unwrap() == -100000000000000000001i128);
        kani::cover!(true);
    }

    // every 21-digit decimal string (longer than any 64-bit spelling) read as a u128 key gives its numeric value
    #[kani::proof]
    #[kani::stub(core::fmt::write, nofmt_write)]
    #[kani::unwind(24)]
    fn key_u128_from_21_digit_strings() {
        let d: [u8; 21] = kani::any();
        let mut want: u128 = 0;
        let mut i = 0;
        while i < 21 {
            kani::assume(d[i] >= b'0' && d[i] <= b'9');
            want = want * 10 + (d[i] - b'0') as u128;
            i += 1;
        }
        let s = unsafe { std::str::from_utf8_unchecked(&d) };
        let k = KeyDeserializer(Any(Inner::String(s.to_string())));
        assert!(u128::deserialize(k).unwrap() == want);
        kani::cover!(d[0] == b'9');
    }

    // ---- more key views: optional keys, newtype keys, unit-variant (enum) keys ---------------------------------------------
    #[kani::proof]
    #[kani::stub(core::fmt::write, nofmt_write)]
    #[kani::unwind(8)]
    fn key_option_and_newtype_views() {
        let v: i32 = kani::any();
        // Some(key): the key deserializer is handed on, so the string form is still parsed
        let got = Option::<i32>::deserialize(KeyDeserializer(Any(Inner::I32(v)))).unwrap();
        assert!(got == Some(v));
        let none = Option::<i32>::deserialize(KeyDeserializer(Any(Inner::Null))).unwrap();
        assert!(none.is_none());
        // a derive-shaped newtype key
        let w = W::deserialize(KeyDeserializer(Any(Inner::I64(v as i64)))).unwrap();
        assert!(w.0 == v as i64);
        kani::cover!(true);
    }

    #[derive(PartialEq)]
    pub enum Color {
        Red,
        Green,
    }
    impl<'de> Deserialize<'de> for Color {
        fn deserialize<D: Deserializer<'de>>(d: D) -> Result<Color, D::Error> {
            struct TagV;
            impl<'de> Visitor<'de> for TagV {
                type Value = bool;
                fn expecting(&self, _: &mut fmt::Formatter<'_>) -> fmt::Result {
                    Ok(())
                }
                fn visit_str<E: de::Error>(self, v: &str) -> Result<bool, E> {
                    match v {
                        "Red" => Ok(true),
                        "Green" => Ok(false),
                        _ => Err(E::custom("unknown variant")),
                    }
                }
            }
            struct Tag(bool);
            impl<'de> Deserialize<'de> for Tag {
                fn deserialize<D: Deserializer<'de>>(d: D) -> Result<Tag, D::Error> {
                    d.deserialize_identifier(TagV).map(Tag)
                }
            }
            struct CV;
            impl<'de> Visitor<'de> for CV {
                type Value = Color;
                fn expecting(&self, _: &mut fmt::Formatter<'_>) -> fmt::Result {
                    Ok(())
                }
                fn visit_enum<A: EnumAccess<'de>>(self, a: A) -> Result<Color, A::Error> {
                    let (t, v): (Tag, A::Variant) = a.variant()?;
                    v.unit_variant()?;
                    Ok(if t.0 { Color::Red } else { Color::Green })
                }
            }
            d.deserialize_enum("Color", &["Red", "Green"], CV)
        }
    }

    #[kani::proof]
    #[kani::stub(core::fmt::write, nofmt_write)]
    #[kani::unwind(8)]
    fn key_unit_variant_enum_view() {
        // enum map keys are unit variants spelled as strings
        let red: bool = kani::any();
        let k = KeyDeserializer(Any(Inner::String(if red { "Red".to_string() } else { "Green".to_string() })));
        let c = Color::deserialize(k).unwrap();
        assert!((c == Color::Red) == red);
        kani::cover!(red);
        kani::cover!(!red);
    }

    // more key types: every integer width / f32 / char / bool, typed or spelled as a string
    macro_rules! key_literal {
        ($name:ident, $t:ty, $lit:expr, $want:expr) => {
            #[kani::proof]
            #[kani::stub(core::fmt::write, nofmt_write)]
            #[kani::unwind(8)]
            fn $name() {
                assert!(<$t>::deserialize(KeyDeserializer(Any(Inner::String($lit.to_string())))).unwrap() == $want);
                kani::cover!(true);
            }
        };
    }
    key_literal!(key_lit_u8, u8, "200", 200u8);
    key_literal!(key_lit_i8, i8, "-5", -5i8);
    key_literal!(key_lit_u16, u16, "65535", 65535u16);
    key_literal!(key_lit_i64, i64, "-12", -12i64);
    key_literal!(key_lit_char, char, "x", 'x');

    #[kani::proof]
    #[kani::stub(core::fmt::write, nofmt_write)]
    fn key_more_types_native() {
        let a: u8 = kani::any();
        assert!(u8::deserialize(KeyDeserializer(Any(Inner::U8(a)))).unwrap() == a);
        let b: i8 = kani::any();
        assert!(i8::deserialize(KeyDeserializer(Any(Inner::I8(b)))).unwrap() == b);
        let c: u16 = kani::any();
        assert!(u16::deserialize(KeyDeserializer(Any(Inner::U16(c)))).unwrap() == c);
        let d: i16 = kani::any();
        assert!(i16::deserialize(KeyDeserializer(Any(Inner::I16(d)))).unwrap() == d);
        let e: u32 = kani::any();
        assert!(u32::deserialize(KeyDeserializer(Any(Inner::U32(e)))).unwrap() == e);
        let f: i64 = kani::any();
        assert!(i64::deserialize(KeyDeserializer(Any(Inner::I64(f)))).unwrap() == f);
        let g: f32 = kani::any();
        assert!(f32::deserialize(KeyDeserializer(Any(Inner::F32(OrderedFloat(g))))).unwrap().to_bits() == g.to_bits());
        let h: bool = kani::any();
        assert!(bool::deserialize(KeyDeserializer(Any(Inner::Bool(h)))).unwrap() == h);
        let i: i128 = kani::any();
        assert!(i128::deserialize(KeyDeserializer(Any(Inner::I128(i)))).unwrap() == i);
        let j: u128 = kani::any();
        assert!(u128::deserialize(KeyDeserializer(Any(Inner::U128(j)))).unwrap() == j);
        kani::cover!(true);
    }
}
