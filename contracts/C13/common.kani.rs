    // ---- shared instrumentation (textually included in both C13 harness modules) -------------------
    /// formatting-free error type for driving visitors directly
    #[derive(Debug)]
    pub struct MockErr;
    impl std::fmt::Display for MockErr {
        fn fmt(&self, _: &mut std::fmt::Formatter<'_>) -> std::fmt::Result {
            Ok(())
        }
    }
    impl std::error::Error for MockErr {}
    impl serde::de::Error for MockErr {
        fn custom<T: std::fmt::Display>(_: T) -> Self {
            MockErr
        }
        fn invalid_type(_: serde::de::Unexpected, _: &dyn serde::de::Expected) -> Self {
            MockErr
        }
        fn invalid_value(_: serde::de::Unexpected, _: &dyn serde::de::Expected) -> Self {
            MockErr
        }
    }
    impl serde::ser::Error for MockErr {
        fn custom<T: std::fmt::Display>(_: T) -> Self {
            MockErr
        }
    }

    /// no-op replacement for core::fmt::write in harnesses whose *error* paths format a message
    pub fn nofmt_write(_: &mut dyn std::fmt::Write, _: std::fmt::Arguments<'_>) -> std::fmt::Result {
        Ok(())
    }

    /// one serde scalar event (ghost log entry)
    #[derive(Clone, Copy, PartialEq, Debug)]
    pub enum Ev {
        None_,
        Bool(bool),
        I8(i8),
        I16(i16),
        I32(i32),
        I64(i64),
        I128(i128),
        U8(u8),
        U16(u16),
        U32(u32),
        U64(u64),
        U128(u128),
        F32(u32),
        F64(u64),
        Char(char),
        /// string event: length and first four bytes
        Str(usize, [u8; 4]),
        Bytes(usize, [u8; 4]),
        Unit,
        OptNone,
        Other,
    }

    pub fn head(b: &[u8]) -> [u8; 4] {
        let mut h = [0u8; 4];
        if b.len() > 0 {
            h[0] = b[0];
        }
        if b.len() > 1 {
            h[1] = b[1];
        }
        if b.len() > 2 {
            h[2] = b[2];
        }
        if b.len() > 3 {
            h[3] = b[3];
        }
        h
    }

    pub static mut LAST: Ev = Ev::None_;

    /// recording serializer: stores the scalar event it receives in LAST
    pub struct RecSer;
    type Imp = serde::ser::Impossible<(), MockErr>;
    impl serde::Serializer for RecSer {
        type Ok = ();
        type Error = MockErr;
        type SerializeSeq = Imp;
        type SerializeTuple = Imp;
        type SerializeTupleStruct = Imp;
        type SerializeTupleVariant = Imp;
        type SerializeMap = Imp;
        type SerializeStruct = Imp;
        type SerializeStructVariant = Imp;
        fn serialize_bool(self, v: bool) -> Result<(), MockErr> { unsafe { LAST = Ev::Bool(v) }; Ok(()) }
        fn serialize_i8(self, v: i8) -> Result<(), MockErr> { unsafe { LAST = Ev::I8(v) }; Ok(()) }
        fn serialize_i16(self, v: i16) -> Result<(), MockErr> { unsafe { LAST = Ev::I16(v) }; Ok(()) }
        fn serialize_i32(self, v: i32) -> Result<(), MockErr> { unsafe { LAST = Ev::I32(v) }; Ok(()) }
        fn serialize_i64(self, v: i64) -> Result<(), MockErr> { unsafe { LAST = Ev::I64(v) }; Ok(()) }
        fn serialize_i128(self, v: i128) -> Result<(), MockErr> { unsafe { LAST = Ev::I128(v) }; Ok(()) }
        fn serialize_u8(self, v: u8) -> Result<(), MockErr> { unsafe { LAST = Ev::U8(v) }; Ok(()) }
        fn serialize_u16(self, v: u16) -> Result<(), MockErr> { unsafe { LAST = Ev::U16(v) }; Ok(()) }
        fn serialize_u32(self, v: u32) -> Result<(), MockErr> { unsafe { LAST = Ev::U32(v) }; Ok(()) }
        fn serialize_u64(self, v: u64) -> Result<(), MockErr> { unsafe { LAST = Ev::U64(v) }; Ok(()) }
        fn serialize_u128(self, v: u128) -> Result<(), MockErr> { unsafe { LAST = Ev::U128(v) }; Ok(()) }
        fn serialize_f32(self, v: f32) -> Result<(), MockErr> { unsafe { LAST = Ev::F32(v.to_bits()) }; Ok(()) }
        fn serialize_f64(self, v: f64) -> Result<(), MockErr> { unsafe { LAST = Ev::F64(v.to_bits()) }; Ok(()) }
        fn serialize_char(self, v: char) -> Result<(), MockErr> { unsafe { LAST = Ev::Char(v) }; Ok(()) }
        fn serialize_str(self, v: &str) -> Result<(), MockErr> { unsafe { LAST = Ev::Str(v.len(), head(v.as_bytes())) }; Ok(()) }
        fn serialize_bytes(self, v: &[u8]) -> Result<(), MockErr> { unsafe { LAST = Ev::Bytes(v.len(), head(v)) }; Ok(()) }
        fn serialize_none(self) -> Result<(), MockErr> { unsafe { LAST = Ev::OptNone }; Ok(()) }
        fn serialize_some<T: ?Sized + serde::Serialize>(self, v: &T) -> Result<(), MockErr> { v.serialize(self) }
        fn serialize_unit(self) -> Result<(), MockErr> { unsafe { LAST = Ev::Unit }; Ok(()) }
        fn serialize_unit_struct(self, _: &'static str) -> Result<(), MockErr> { unsafe { LAST = Ev::Other }; Ok(()) }
        fn serialize_unit_variant(self, _: &'static str, _: u32, _: &'static str) -> Result<(), MockErr> { unsafe { LAST = Ev::Other }; Ok(()) }
        fn serialize_newtype_struct<T: ?Sized + serde::Serialize>(self, _: &'static str, v: &T) -> Result<(), MockErr> { v.serialize(self) }
        fn serialize_newtype_variant<T: ?Sized + serde::Serialize>(self, _: &'static str, _: u32, _: &'static str, _: &T) -> Result<(), MockErr> { Err(MockErr) }
        fn serialize_seq(self, _: Option<usize>) -> Result<Imp, MockErr> { Err(MockErr) }
        fn serialize_tuple(self, _: usize) -> Result<Imp, MockErr> { Err(MockErr) }
        fn serialize_tuple_struct(self, _: &'static str, _: usize) -> Result<Imp, MockErr> { Err(MockErr) }
        fn serialize_tuple_variant(self, _: &'static str, _: u32, _: &'static str, _: usize) -> Result<Imp, MockErr> { Err(MockErr) }
        fn serialize_map(self, _: Option<usize>) -> Result<Imp, MockErr> { Err(MockErr) }
        fn serialize_struct(self, _: &'static str, _: usize) -> Result<Imp, MockErr> { Err(MockErr) }
        fn serialize_struct_variant(self, _: &'static str, _: u32, _: &'static str, _: usize) -> Result<Imp, MockErr> { Err(MockErr) }
    }

    pub fn emitted<T: serde::Serialize + ?Sized>(v: &T) -> Ev {
        unsafe { LAST = Ev::None_ };
        let r = v.serialize(RecSer);
        assert!(r.is_ok());
        unsafe { LAST }
    }

    /// Two scalar events denote the same JSON value: integers compare by numeric value whatever their width (the property
    /// does not prescribe the internal representation, only that the value and the document are preserved); floats must keep
    /// their width and bits (a widened f32 prints differently); everything else must be identical.
    pub fn equiv(a: Ev, b: Ev) -> bool {
        fn int(e: Ev) -> Option<(bool, u128)> {
            match e {
                Ev::I8(x) => Some((x < 0, (x as i128).unsigned_abs())),
                Ev::I16(x) => Some((x < 0, (x as i128).unsigned_abs())),
                Ev::I32(x) => Some((x < 0, (x as i128).unsigned_abs())),
                Ev::I64(x) => Some((x < 0, (x as i128).unsigned_abs())),
                Ev::I128(x) => Some((x < 0, x.unsigned_abs())),
                Ev::U8(x) => Some((false, x as u128)),
                Ev::U16(x) => Some((false, x as u128)),
                Ev::U32(x) => Some((false, x as u128)),
                Ev::U64(x) => Some((false, x as u128)),
                Ev::U128(x) => Some((false, x)),
                _ => None,
            }
        }
        match (int(a), int(b)) {
            (Some(x), Some(y)) => x == y,
            (None, None) => a == b,
            _ => false,
        }
    }
