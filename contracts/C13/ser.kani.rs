// Kani harness module for C13, appended to a scratch copy of conjure-object/src/any/ser.rs
#[cfg(kani)]
mod verif_c13 {
    use super::*;
    use serde::Serializer as _;
//@@COMMON@@

    fn is_u8(a: &Any, v: u8) -> bool {
        matches!(a.0, Inner::U8(x) if x == v)
    }
    fn is_i64(a: &Any, v: i64) -> bool {
        matches!(a.0, Inner::I64(x) if x == v)
    }
    fn is_f64(a: &Any, v: f64) -> bool {
        matches!(a.0, Inner::F64(x) if x.0.to_bits() == v.to_bits())
    }

    // ---- every scalar method of AnySerializer stores exactly the payload in the matching slot -----------
    #[kani::proof]
    fn scalar_slots() {
        let b: bool = kani::any();
        assert!(matches!(AnySerializer.serialize_bool(b).unwrap().0, Inner::Bool(x) if x == b));
        let v: i8 = kani::any();
        assert!(matches!(AnySerializer.serialize_i8(v).unwrap().0, Inner::I8(x) if x == v));
        let v: i16 = kani::any();
        assert!(matches!(AnySerializer.serialize_i16(v).unwrap().0, Inner::I16(x) if x == v));
        let v: i32 = kani::any();
        assert!(matches!(AnySerializer.serialize_i32(v).unwrap().0, Inner::I32(x) if x == v));
        let v: i64 = kani::any();
        assert!(matches!(AnySerializer.serialize_i64(v).unwrap().0, Inner::I64(x) if x == v));
        let v: i128 = kani::any();
        assert!(matches!(AnySerializer.serialize_i128(v).unwrap().0, Inner::I128(x) if x == v));
        let v: u8 = kani::any();
        assert!(matches!(AnySerializer.serialize_u8(v).unwrap().0, Inner::U8(x) if x == v));
        let v: u16 = kani::any();
        assert!(matches!(AnySerializer.serialize_u16(v).unwrap().0, Inner::U16(x) if x == v));
        let v: u32 = kani::any();
        assert!(matches!(AnySerializer.serialize_u32(v).unwrap().0, Inner::U32(x) if x == v));
        let v: u64 = kani::any();
        assert!(matches!(AnySerializer.serialize_u64(v).unwrap().0, Inner::U64(x) if x == v));
        let v: u128 = kani::any();
        assert!(matches!(AnySerializer.serialize_u128(v).unwrap().0, Inner::U128(x) if x == v));
        let v: f32 = kani::any();
        assert!(matches!(AnySerializer.serialize_f32(v).unwrap().0, Inner::F32(x) if x.0.to_bits() == v.to_bits()));
        let v: f64 = kani::any();
        assert!(is_f64(&AnySerializer.serialize_f64(v).unwrap(), v));
        assert!(matches!(AnySerializer.serialize_unit().unwrap().0, Inner::Null));
        assert!(matches!(AnySerializer.serialize_none().unwrap().0, Inner::Null));
        assert!(matches!(AnySerializer.serialize_unit_struct("X").unwrap().0, Inner::Null));
        kani::cover!(true);
    }

    #[kani::proof]
    fn wrappers_are_transparent() {
        let v: i64 = kani::any();
        assert!(is_i64(&AnySerializer.serialize_some(&v).unwrap(), v));
        assert!(is_i64(&AnySerializer.serialize_newtype_struct("N", &v).unwrap(), v));
        kani::cover!(true);
    }

    // ---- sequence-like serializers: each step stores the element unchanged, in order --------------------
    #[kani::proof]
    #[kani::unwind(4)]
    fn seq_serializer_steps() {
        let a: u8 = kani::any();
        let b: i64 = kani::any();
        let mut s = AnySerializer.serialize_seq(Some(2)).unwrap();
        SerializeSeq::serialize_element(&mut s, &a).unwrap();
        SerializeSeq::serialize_element(&mut s, &b).unwrap();
        let out = SerializeSeq::end(s).unwrap();
        match &out.0 {
            Inner::Seq(v) => assert!(v.len() == 2 && is_u8(&v[0], a) && is_i64(&v[1], b)),
            _ => assert!(false),
        }
        std::mem::forget(out);
        kani::cover!(true);
    }

    #[kani::proof]
    #[kani::unwind(4)]
    fn tuple_serializer_steps() {
        let a: u8 = kani::any();
        let b: i64 = kani::any();
        let mut s = AnySerializer.serialize_tuple(2).unwrap();
        SerializeTuple::serialize_element(&mut s, &a).unwrap();
        SerializeTuple::serialize_element(&mut s, &b).unwrap();
        let out = SerializeTuple::end(s).unwrap();
        match &out.0 {
            Inner::Seq(v) => assert!(v.len() == 2 && is_u8(&v[0], a) && is_i64(&v[1], b)),
            _ => assert!(false),
        }
        std::mem::forget(out);
        kani::cover!(true);
    }

    #[kani::proof]
    #[kani::unwind(4)]
    fn tuple_struct_serializer_steps() {
        let a: u8 = kani::any();
        let b: i64 = kani::any();
        let mut s = AnySerializer.serialize_tuple_struct("T", 2).unwrap();
        SerializeTupleStruct::serialize_field(&mut s, &a).unwrap();
        SerializeTupleStruct::serialize_field(&mut s, &b).unwrap();
        let out = SerializeTupleStruct::end(s).unwrap();
        match &out.0 {
            Inner::Seq(v) => assert!(v.len() == 2 && is_u8(&v[0], a) && is_i64(&v[1], b)),
            _ => assert!(false),
        }
        std::mem::forget(out);
        kani::cover!(true);
    }

    // ---- map serializer: key is held until its value arrives, then inserted as that pair -------------------
    #[kani::proof]
    fn map_serializer_key_then_value() {
        let k: i32 = kani::any();
        let v: f64 = kani::any();
        let mut s = AnySerializer.serialize_map(Some(1)).unwrap();
        SerializeMap::serialize_key(&mut s, &k).unwrap();
        assert!(matches!(&s.key, Some(a) if matches!(a.0, Inner::I32(x) if x == k)));
        assert!(s.map.is_empty());
        std::mem::forget(s);
        kani::cover!(true);
    }

    #[kani::proof]
    fn map_serializer_value_without_key_is_error() {
        let v: f64 = kani::any();
        let mut s = AnySerializer.serialize_map(None).unwrap();
        // message is a constant; formatting it is cheap
        assert!(SerializeMap::serialize_value(&mut s, &v).is_err());
        kani::cover!(true);
    }
}
