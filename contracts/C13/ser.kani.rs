// Kani harness module for C13, appended to a scratch copy of conjure-object/src/any/ser.rs
#[cfg(kani)]
mod verif_c13 {
    use super::*;
    use serde::Serializer as _;
//@@COMMON@@

    // value-level views (the internal slot an integer is stored in is not part of the property)
    fn is_u8(a: &Any, v: u8) -> bool {
        equiv(emitted(a), Ev::U8(v))
    }
    fn is_i64(a: &Any, v: i64) -> bool {
        equiv(emitted(a), Ev::I64(v))
    }
    fn is_f64(a: &Any, v: f64) -> bool {
        emitted(a) == Ev::F64(v.to_bits())
    }

    // ---- every scalar method of AnySerializer stores exactly the payload in the matching slot -----------
    #[kani::proof]
    fn scalar_slots() {
        macro_rules! same_value {
            ($method:ident, $t:ty, $ev:expr) => {{
                let v: $t = kani::any();
                let a = AnySerializer.$method(v).unwrap();
                assert!(equiv(emitted(&a), $ev(v)));
            }};
        }
        same_value!(serialize_bool, bool, Ev::Bool);
        same_value!(serialize_i8, i8, Ev::I8);
        same_value!(serialize_i16, i16, Ev::I16);
        same_value!(serialize_i32, i32, Ev::I32);
        same_value!(serialize_i64, i64, Ev::I64);
        same_value!(serialize_i128, i128, Ev::I128);
        same_value!(serialize_u8, u8, Ev::U8);
        same_value!(serialize_u16, u16, Ev::U16);
        same_value!(serialize_u32, u32, Ev::U32);
        same_value!(serialize_u64, u64, Ev::U64);
        same_value!(serialize_u128, u128, Ev::U128);
        let v: f32 = kani::any();
        assert!(emitted(&AnySerializer.serialize_f32(v).unwrap()) == Ev::F32(v.to_bits()));
        let v: f64 = kani::any();
        assert!(is_f64(&AnySerializer.serialize_f64(v).unwrap(), v));
        // unit, none and unit structs are JSON null
        assert!(emitted(&AnySerializer.serialize_unit().unwrap()) == Ev::Unit);
        assert!(emitted(&AnySerializer.serialize_none().unwrap()) == Ev::Unit);
        assert!(emitted(&AnySerializer.serialize_unit_struct("X").unwrap()) == Ev::Unit);
        kani::cover!(true);
    }

    #[kani::proof]
    fn wrappers_are_transparent() {
        let v: i64 = kani::any();
        assert!(is_i64(&AnySerializer.serialize_some(&v).unwrap(), v));
        assert!(is_i64(&AnySerializer.serialize_newtype_struct("N", &v).unwrap(), v));
        kani::cover!(true);
    }

    // ---- sequence-like serializers: each step stores the element unchanged, in order --------------------
    #[kani::proof]
    #[kani::unwind(4)]
    fn seq_serializer_steps() {
        let a: u8 = kani::any();
        let b: i64 = kani::any();
        let mut s = AnySerializer.serialize_seq(Some(2)).unwrap();
        SerializeSeq::serialize_element(&mut s, &a).unwrap();
        SerializeSeq::serialize_element(&mut s, &b).unwrap();
        let out = SerializeSeq::end(s).unwrap();
        match &out.0 {
            Inner::Seq(v) => assert!(v.len() == 2 && is_u8(&v[0], a) && is_i64(&v[1], b)),
            _ => assert!(false),
        }
        std::mem::forget(out);
        kani::cover!(true);
    }

    #[kani::proof]
    #[kani::unwind(4)]
    fn tuple_serializer_steps() {
        let a: u8 = kani::any();
        let b: i64 = kani::any();
        let mut s = AnySerializer.serialize_tuple(2).unwrap();
        SerializeTuple::serialize_element(&mut s, &a).unwrap();
        SerializeTuple::serialize_element(&mut s, &b).unwrap();
        let out = SerializeTuple::end(s).unwrap();
        match &out.0 {
            Inner::Seq(v) => assert!(v.len() == 2 && is_u8(&v[0], a) && is_i64(&v[1], b)),
            _ => assert!(false),
        }
        std::mem::forget(out);
        kani::cover!(true);
    }

    #[kani::proof]
    #[kani::unwind(4)]
    fn tuple_struct_serializer_steps() {
        let a: u8 = kani::any();
        let b: i64 = kani::any();
        let mut s = AnySerializer.serialize_tuple_struct("T", 2).unwrap();
        SerializeTupleStruct::serialize_field(&mut s, &a).unwrap();
        SerializeTupleStruct::serialize_field(&mut s, &b).unwrap();
        let out = SerializeTupleStruct::end(s).unwrap();
        match &out.0 {
            Inner::Seq(v) => assert!(v.len() == 2 && is_u8(&v[0], a) && is_i64(&v[1], b)),
            _ => assert!(false),
        }
        std::mem::forget(out);
        kani::cover!(true);
    }

    // ---- map serializer: key is held until its value arrives, then inserted as that pair -------------------
    #[kani::proof]
    fn map_serializer_key_then_value() {
        let k: i32 = kani::any();
        let v: f64 = kani::any();
        let mut s = AnySerializer.serialize_map(Some(1)).unwrap();
        SerializeMap::serialize_key(&mut s, &k).unwrap();
        // the pending key denotes k: either as an integer, or already in the string form it has in a JSON document (the
        // property fixes the round trip and the document, not the internal slot)
        let e = match &s.key {
            Some(a) => emitted(a),
            None => Ev::None_,
        };
        let wire_form = match &s.key {
            Some(crate::any::Any(crate::any::Inner::String(t))) => t.parse::<i32>() == Ok(k),
            _ => false,
        };
        assert!(equiv(e, Ev::I32(k)) || wire_form);
        assert!(s.map.is_empty());
        std::mem::forget(s);
        kani::cover!(true);
    }

    #[kani::proof]
    fn map_serializer_value_without_key_is_error() {
        let v: f64 = kani::any();
        let mut s = AnySerializer.serialize_map(None).unwrap();
        // message is a constant; formatting it is cheap
        assert!(SerializeMap::serialize_value(&mut s, &v).is_err());
        kani::cover!(true);
    }

    // ---- Serialize for Any: a sequence re-emits its elements unchanged, in order --------------------------------------
    pub static mut SEQ_LOG: [Ev; 4] = [Ev::None_; 4];
    pub static mut SEQ_N: usize = 0;
    pub static mut SEQ_HINT: Option<usize> = None;
    pub static mut SEQ_ENDED: bool = false;
    pub struct SeqRec;
    pub struct SeqRecC;
    type ImpS = serde::ser::Impossible<(), MockErr>;
    impl serde::Serializer for SeqRec {
        type Ok = ();
        type Error = MockErr;
        type SerializeSeq = SeqRecC;
        type SerializeTuple = ImpS;
        type SerializeTupleStruct = ImpS;
        type SerializeTupleVariant = ImpS;
        type SerializeMap = ImpS;
        type SerializeStruct = ImpS;
        type SerializeStructVariant = ImpS;
        fn serialize_seq(self, len: Option<usize>) -> Result<SeqRecC, MockErr> {
            unsafe {
                SEQ_HINT = len;
                SEQ_N = 0;
                SEQ_ENDED = false;
            }
            Ok(SeqRecC)
        }
        fn serialize_bool(self, _: bool) -> Result<(), MockErr> { Err(MockErr) }
        fn serialize_i8(self, _: i8) -> Result<(), MockErr> { Err(MockErr) }
        fn serialize_i16(self, _: i16) -> Result<(), MockErr> { Err(MockErr) }
        fn serialize_i32(self, _: i32) -> Result<(), MockErr> { Err(MockErr) }
        fn serialize_i64(self, _: i64) -> Result<(), MockErr> { Err(MockErr) }
        fn serialize_u8(self, _: u8) -> Result<(), MockErr> { Err(MockErr) }
        fn serialize_u16(self, _: u16) -> Result<(), MockErr> { Err(MockErr) }
        fn serialize_u32(self, _: u32) -> Result<(), MockErr> { Err(MockErr) }
        fn serialize_u64(self, _: u64) -> Result<(), MockErr> { Err(MockErr) }
        fn serialize_f32(self, _: f32) -> Result<(), MockErr> { Err(MockErr) }
        fn serialize_f64(self, _: f64) -> Result<(), MockErr> { Err(MockErr) }
        fn serialize_char(self, _: char) -> Result<(), MockErr> { Err(MockErr) }
        fn serialize_str(self, _: &str) -> Result<(), MockErr> { Err(MockErr) }
        fn serialize_bytes(self, _: &[u8]) -> Result<(), MockErr> { Err(MockErr) }
        fn serialize_none(self) -> Result<(), MockErr> { Err(MockErr) }
        fn serialize_some<T: ?Sized + serde::Serialize>(self, _: &T) -> Result<(), MockErr> { Err(MockErr) }
        fn serialize_unit(self) -> Result<(), MockErr> { Err(MockErr) }
        fn serialize_unit_struct(self, _: &'static str) -> Result<(), MockErr> { Err(MockErr) }
        fn serialize_unit_variant(self, _: &'static str, _: u32, _: &'static str) -> Result<(), MockErr> { Err(MockErr) }
        fn serialize_newtype_struct<T: ?Sized + serde::Serialize>(self, _: &'static str, _: &T) -> Result<(), MockErr> { Err(MockErr) }
        fn serialize_newtype_variant<T: ?Sized + serde::Serialize>(self, _: &'static str, _: u32, _: &'static str, _: &T) -> Result<(), MockErr> { Err(MockErr) }
        fn serialize_tuple(self, _: usize) -> Result<ImpS, MockErr> { Err(MockErr) }
        fn serialize_tuple_struct(self, _: &'static str, _: usize) -> Result<ImpS, MockErr> { Err(MockErr) }
        fn serialize_tuple_variant(self, _: &'static str, _: u32, _: &'static str, _: usize) -> Result<ImpS, MockErr> { Err(MockErr) }
        fn serialize_map(self, _: Option<usize>) -> Result<ImpS, MockErr> { Err(MockErr) }
        fn serialize_struct(self, _: &'static str, _: usize) -> Result<ImpS, MockErr> { Err(MockErr) }
        fn serialize_struct_variant(self, _: &'static str, _: u32, _: &'static str, _: usize) -> Result<ImpS, MockErr> { Err(MockErr) }
    }
    impl SerializeSeq for SeqRecC {
        type Ok = ();
        type Error = MockErr;
        fn serialize_element<T: ?Sized + serde::Serialize>(&mut self, v: &T) -> Result<(), MockErr> {
            let e = emitted(v);
            unsafe {
                if SEQ_N < 4 {
                    SEQ_LOG[SEQ_N] = e;
                }
                SEQ_N += 1;
            }
            Ok(())
        }
        fn end(self) -> Result<(), MockErr> {
            unsafe { SEQ_ENDED = true };
            Ok(())
        }
    }

    #[kani::proof]
    #[kani::unwind(4)]
    fn any_seq_reserializes_elements_in_order() {
        let a: u8 = kani::any();
        let b: i64 = kani::any();
        let v = Any(Inner::Seq(vec![Any(Inner::U8(a)), Any(Inner::I64(b))]));
        assert!(serde::Serialize::serialize(&v, SeqRec).is_ok());
        unsafe {
            assert!(SEQ_HINT == Some(2) && SEQ_N == 2 && SEQ_ENDED);
            assert!(SEQ_LOG[0] == Ev::U8(a) && SEQ_LOG[1] == Ev::I64(b));
        }
        std::mem::forget(v);
        kani::cover!(true);
    }

    // ---- externally tagged variants: {"<variant>": payload} as a single-entry map ------------------------------------------
    fn single_entry<'a>(a: &'a Any) -> Option<(&'a Any, &'a Any)> {
        match &a.0 {
            Inner::Map(m) if m.len() == 1 => m.iter().next(),
            _ => None,
        }
    }
    fn is_str(a: &Any, lit: &[u8]) -> bool {
        matches!(&a.0, Inner::String(s) if s.as_bytes() == lit)
    }

    #[kani::proof]
    #[kani::unwind(6)]
    fn newtype_variant_is_single_entry_map() {
        let v: i64 = kani::any();
        let out = AnySerializer.serialize_newtype_variant("E", 3, "Var", &v).unwrap();
        match single_entry(&out) {
            Some((k, val)) => assert!(is_str(k, b"Var") && is_i64(val, v)),
            None => assert!(false),
        }
        std::mem::forget(out);
        kani::cover!(true);
    }

    #[kani::proof]
    #[kani::unwind(6)]
    fn tuple_variant_is_single_entry_map_of_seq() {
        let a: u8 = kani::any();
        let b: i64 = kani::any();
        let mut s = AnySerializer.serialize_tuple_variant("E", 1, "Var", 2).unwrap();
        SerializeTupleVariant::serialize_field(&mut s, &a).unwrap();
        SerializeTupleVariant::serialize_field(&mut s, &b).unwrap();
        let out = SerializeTupleVariant::end(s).unwrap();
        match single_entry(&out) {
            Some((k, val)) => {
                assert!(is_str(k, b"Var"));
                match &val.0 {
                    Inner::Seq(v) => assert!(v.len() == 2 && is_u8(&v[0], a) && is_i64(&v[1], b)),
                    _ => assert!(false),
                }
            }
            None => assert!(false),
        }
        std::mem::forget(out);
        kani::cover!(true);
    }

    #[kani::proof]
    #[kani::unwind(6)]
    fn map_serializer_entry_is_stored_as_that_pair() {
        let k: i32 = kani::any();
        let v: f64 = kani::any();
        let mut s = AnySerializer.serialize_map(Some(1)).unwrap();
        SerializeMap::serialize_key(&mut s, &k).unwrap();
        SerializeMap::serialize_value(&mut s, &v).unwrap();
        let out = SerializeMap::end(s).unwrap();
        match single_entry(&out) {
            // the key denotes k (as an integer of any width, or in the string form it has in a JSON document)
            Some((kk, vv)) => {
                let wire_form = match kk {
                    crate::any::Any(crate::any::Inner::String(t)) => t.parse::<i32>() == Ok(k),
                    _ => false,
                };
                assert!((equiv(emitted(kk), Ev::I32(k)) || wire_form) && is_f64(vv, v))
            }
            None => assert!(false),
        }
        std::mem::forget(out);
        kani::cover!(true);
    }

    #[kani::proof]
    #[kani::unwind(6)]
    fn struct_serializer_field_is_stored_under_its_name() {
        let v: i64 = kani::any();
        let mut s = AnySerializer.serialize_struct("S", 1).unwrap();
        SerializeStruct::serialize_field(&mut s, "fld", &v).unwrap();
        let out = SerializeStruct::end(s).unwrap();
        match single_entry(&out) {
            Some((kk, vv)) => assert!(is_str(kk, b"fld") && is_i64(vv, v)),
            None => assert!(false),
        }
        std::mem::forget(out);
        kani::cover!(true);
    }

    // ---- the container serializers are blind to what they carry: elements of every kind stay elements -----------------------
    fn is_null(a: &Any) -> bool {
        matches!(a.0, Inner::Null)
    }

    #[kani::proof]
    #[kani::unwind(4)]
    fn sequences_of_u8_stay_sequences() {
        // binary is only what arrives through serialize_bytes; a list / tuple / tuple struct of u8 is a list
        let a: u8 = kani::any();
        let b: u8 = kani::any();
        let mut s = AnySerializer.serialize_tuple(2).unwrap();
        SerializeTuple::serialize_element(&mut s, &a).unwrap();
        SerializeTuple::serialize_element(&mut s, &b).unwrap();
        let out = SerializeTuple::end(s).unwrap();
        assert!(matches!(&out.0, Inner::Seq(v) if v.len() == 2 && is_u8(&v[0], a) && is_u8(&v[1], b)));
        std::mem::forget(out);
        let mut s = AnySerializer.serialize_seq(Some(2)).unwrap();
        SerializeSeq::serialize_element(&mut s, &a).unwrap();
        SerializeSeq::serialize_element(&mut s, &b).unwrap();
        let out = SerializeSeq::end(s).unwrap();
        assert!(matches!(&out.0, Inner::Seq(v) if v.len() == 2 && is_u8(&v[0], a) && is_u8(&v[1], b)));
        std::mem::forget(out);
        let mut s = AnySerializer.serialize_tuple_struct("T", 1).unwrap();
        SerializeTupleStruct::serialize_field(&mut s, &a).unwrap();
        let out = SerializeTupleStruct::end(s).unwrap();
        assert!(matches!(&out.0, Inner::Seq(v) if v.len() == 1 && is_u8(&v[0], a)));
        std::mem::forget(out);
        kani::cover!(true);
    }

    #[kani::proof]
    #[kani::unwind(8)]
    fn null_elements_and_fields_are_kept() {
        // unit / None payloads are values like any other: they keep their slot
        let x: i64 = kani::any();
        let mut s = AnySerializer.serialize_seq(Some(2)).unwrap();
        SerializeSeq::serialize_element(&mut s, &()).unwrap();
        SerializeSeq::serialize_element(&mut s, &x).unwrap();
        let out = SerializeSeq::end(s).unwrap();
        assert!(matches!(&out.0, Inner::Seq(v) if v.len() == 2 && is_null(&v[0]) && is_i64(&v[1], x)));
        std::mem::forget(out);
        let mut s = AnySerializer.serialize_struct("S", 1).unwrap();
        SerializeStruct::serialize_field(&mut s, "done", &()).unwrap();
        let out = SerializeStruct::end(s).unwrap();
        match single_entry(&out) {
            Some((k, v)) => assert!(is_str(k, b"done") && is_null(v)),
            None => assert!(false),
        }
        std::mem::forget(out);
        let mut s = AnySerializer.serialize_struct("S", 1).unwrap();
        SerializeStruct::serialize_field(&mut s, "opt", &None::<i64>).unwrap();
        let out = SerializeStruct::end(s).unwrap();
        match single_entry(&out) {
            Some((k, v)) => assert!(is_str(k, b"opt") && is_null(v)),
            None => assert!(false),
        }
        std::mem::forget(out);
        kani::cover!(true);
    }

    #[kani::proof]
    #[kani::unwind(6)]
    fn struct_variant_fields_are_kept() {
        let x: i64 = kani::any();
        let mut s = AnySerializer.serialize_struct_variant("E", 2, "Var", 1).unwrap();
        SerializeStructVariant::serialize_field(&mut s, "token", &()).unwrap();
        let out = SerializeStructVariant::end(s).unwrap();
        match single_entry(&out) {
            Some((k, v)) => {
                assert!(is_str(k, b"Var"));
                match single_entry(v) {
                    Some((kk, vv)) => assert!(is_str(kk, b"token") && is_null(vv)),
                    None => assert!(false),
                }
            }
            None => assert!(false),
        }
        std::mem::forget(out);
        let mut s = AnySerializer.serialize_struct_variant("E", 2, "Var", 1).unwrap();
        SerializeStructVariant::serialize_field(&mut s, "code", &x).unwrap();
        let out = SerializeStructVariant::end(s).unwrap();
        match single_entry(&out) {
            Some((k, v)) => {
                assert!(is_str(k, b"Var"));
                match single_entry(v) {
                    Some((kk, vv)) => assert!(is_str(kk, b"code") && is_i64(vv, x)),
                    None => assert!(false),
                }
            }
            None => assert!(false),
        }
        std::mem::forget(out);
        kani::cover!(true);
    }
}
