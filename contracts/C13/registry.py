"""C13 — The dynamic `any` value is a lossless carrier of serializable data and of JSON."""
import os, re
from vf import vx, Undecided

DE = "conjure-object/src/any/de.rs"
SER = "conjure-object/src/any/ser.rs"
MOD = "conjure-object/src/any/mod.rs"
_HERE = os.path.dirname(os.path.abspath(__file__))

TRUSTED = [
    "rustc, Kani 0.68 + CBMC 6.11",
    "serde's primitive Deserialize/Serialize impls are executed by Kani, not assumed",
    "serde_json (JSON text <-> serde events) is trusted: 'any JSON document' is decided at the level of serde events",
    "base64 STANDARD engine (binary coercion) is trusted beyond the bounded harness",
]
ASSUMPTIONS = [
    "cfg(kani) harness modules appended to scratch copies of any/de.rs and any/ser.rs; executable text unchanged",
    "container round trips are argued by structural induction from the per-step frame obligations (not mechanised): a whole two-element Vec<u8> through Any gives no CBMC answer in 15 min (recursive drop glue, BTreeMap)",
    "std::mem::forget on Any values in container-step harnesses (drop glue is not part of the property)",
    "termination not checked by Kani",
]
NOT_DECIDED = [
    "whole-container round trips (Vec/BTreeMap/struct/enum through Any) — only per-step frames are proved (serializer side: sequences, tuples, single-entry maps, struct fields, newtype/tuple variants; deserializer side: sequences, map values)",
    "maps with more than one entry (std BTreeMap ordering is out of CBMC's reach); the deserializer side of maps (MapDeserializer over BTreeMap::into_iter: single-entry harnesses timed out at 300 s) — only the value half of an entry is proved",
    "JSON text parsing/printing (serde_json); Base64 decoding beyond the bound",
    "finite float map keys in string form (\"0.1\" read as f64): std's float parser is out of CBMC's reach even for one concrete literal (300 s, no answer), so a key parser of the wrong float width is not detected; the non-finite spellings are decided",
    "enum views through Any::deserialize_enum / EnumDeserializer / VariantDeserializer (every harness, even for a bare string, timed out: CBMC unrolls the recursive drop glue of Any); enum *map keys* are decided (C13.K.key.enum)",
]

def _mod(which):
    def f(ws):
        s = open(os.path.join(_HERE, which)).read()
        c = open(os.path.join(_HERE, "common.kani.rs")).read()
        assert "//@@COMMON@@" in s
        return s.replace("//@@COMMON@@", c)
    return f

def H(name, ob, file, fns, desc, kind="complete", bound=None, tier="quick", timeout=300):
    return dict(name=name, ob=ob, functions=[file + "::" + f for f in fns], desc=desc, kind=kind, bound=bound, tier=tier, timeout=timeout)

INTS = ["i8", "i16", "i32", "i64", "i128", "u8", "u16", "u32", "u64", "u128"]
_de = []
for t in ["bool"] + INTS + ["f32", "f64", "unit"]:
    _de.append(H("rt_" + t, "C13.K.scalar_roundtrip." + t, DE,
                 ["Deserializer<'de> for Any::deserialize_any", "Deserializer<'de> for Any::macro forward_to_deserialize_any",
                  "Deserializer<'de> for Any::deserialize_" + (t if t in ("f32", "f64") else "any")],
                 "Any::new(v)?.deserialize_into::<%s>()? == v for all values%s" % (t, " (bitwise, NaN payload kept)" if t[0] == "f" else "")))
_de += [
    H("rt_opt_i64_some", "C13.K.scalar_roundtrip.option_i64_some", DE, ["Deserializer<'de> for Any::deserialize_option"], "Some(i64) round trip, all values"),
    H("rt_opt_f64_some", "C13.K.scalar_roundtrip.option_f64_some", DE, ["Deserializer<'de> for Any::deserialize_option", "Deserializer<'de> for Any::deserialize_f64"], "Some(f64) round trip, bitwise"),
    H("rt_opt_none", "C13.K.scalar_roundtrip.option_none", DE, ["Deserializer<'de> for Any::deserialize_option"], "None round trip"),
    H("rt_newtype_struct", "C13.K.newtype_struct.roundtrip", DE, ["Deserializer<'de> for Any::deserialize_newtype_struct", SER + "::Serializer for AnySerializer::serialize_newtype_struct"],
      "a derive-shaped newtype struct W(i64) round-trips through Any (all values)"),
    H("rt_string_len2", "C13.K.string_roundtrip.len2", DE, ["Deserializer<'de> for Any::deserialize_any", SER + "::Serializer for AnySerializer::serialize_str"],
      "every UTF-8 string of <= 2 bytes round-trips through Any", kind="bounded", bound="strings of <= 2 bytes", timeout=300),
    H("rt_bytes_len2", "C13.K.bytes_roundtrip.len2", DE, ["Deserializer<'de> for Any::deserialize_bytes", "Deserializer<'de> for Any::deserialize_byte_buf", SER + "::Serializer for AnySerializer::serialize_bytes"],
      "every 2-byte binary value round-trips through Any (ByteBuf-shaped type)", kind="bounded", bound="2-byte values", timeout=300),
    H("rt_string_and_bytes_40", "C13.K.long_payload_roundtrip", DE, ["Deserializer<'de> for Any::deserialize_any", "Deserializer<'de> for Any::deserialize_byte_buf", SER + "::Serializer for AnySerializer::serialize_str", SER + "::Serializer for AnySerializer::serialize_bytes"],
      "a 40-byte string and a 40-byte binary value survive typed -> any -> typed byte for byte", kind="bounded", bound="2 concrete 40-byte payloads", timeout=400),
    H("rt_char", "C13.K.scalar_roundtrip.char", DE, ["Deserializer<'de> for Any::deserialize_any"], "char round trip, all scalar values (stored as a string)"),
]
for t in ["bool"] + INTS + ["char", "f32", "f64"]:
    _de.append(H("ev_" + t, "C13.K.event_identity." + t, DE, ["Visitor<'de> for AnyVisitor::visit_" + t, SER + "::Serialize for Any::serialize"],
                 "AnyVisitor.visit_%s(v) re-serializes as the same %s event with the same payload" % (t, t)))
_de.append(H("ev_strings_and_bytes", "C13.K.event_identity.strings_bytes", DE, ["Visitor<'de> for AnyVisitor::visit_str", "Visitor<'de> for AnyVisitor::visit_string", "Visitor<'de> for AnyVisitor::visit_bytes", "Visitor<'de> for AnyVisitor::visit_byte_buf", SER + "::Serialize for Any::serialize"],
             "every string / bytes visit form stores the text / bytes unchanged and re-serializes it as a string / bytes event", kind="bounded", bound="2-byte ASCII strings / 2-byte values", timeout=300))
_de.append(H("ev_unit_none", "C13.K.event_identity.unit_none", DE, ["Visitor<'de> for AnyVisitor::visit_unit", "Visitor<'de> for AnyVisitor::visit_none"],
             "unit / none events re-serialize as unit (JSON null)"))
for t in ["bool"] + INTS + ["f32", "f64"]:
    _de.append(H("se_" + t, "C13.K.same_event." + t, DE, [SER + "::Serialize for Any::serialize", SER + "::Serializer for AnySerializer::serialize_" + t],
                 "serializing Any::new(v) emits the same event as serializing v (%s)" % t))
_de += [
    H("coerce_nan", "C13.K.coerce.nan", DE, ["Deserializer<'de> for Any::deserialize_f32", "Deserializer<'de> for Any::deserialize_f64"], "\"NaN\" read as f32/f64 is NaN"),
    H("coerce_inf", "C13.K.coerce.infinity", DE, ["Deserializer<'de> for Any::deserialize_f32", "Deserializer<'de> for Any::deserialize_f64"], "\"Infinity\" read as f32/f64 is +inf"),
    H("coerce_neg_inf", "C13.K.coerce.neg_infinity", DE, ["Deserializer<'de> for Any::deserialize_f32", "Deserializer<'de> for Any::deserialize_f64"], "\"-Infinity\" read as f32/f64 is -inf"),
    H("coerce_other_strings_len2", "C13.K.coerce.other_strings_len2", DE, ["Deserializer<'de> for Any::deserialize_f64"],
      "every string of <= 2 bytes read as f64 reaches the visitor as that string", kind="bounded", bound="strings of <= 2 bytes", timeout=900),
    H("coerce_other_strings_len3", "C13.K.coerce.other_strings_len3", DE, ["Deserializer<'de> for Any::deserialize_f64"],
      "every string of <= 3 bytes other than \"NaN\" reaches the visitor as that string", kind="bounded", bound="strings of <= 3 bytes", tier="thorough", timeout=900),
    H("option_view", "C13.K.option_view", DE, ["Deserializer<'de> for Any::deserialize_option"], "null is None, anything else is Some(value)"),
    H("seq_deserializer_steps", "C13.K.frame.seq_deserializer", DE, ["SeqAccess<'de> for SeqDeserializer::next_element_seed", "SeqAccess<'de> for SeqDeserializer::size_hint"],
      "SeqDeserializer hands out the stored elements unchanged, in order, then None"),
    H("visit_seq_collects_in_order", "C13.K.frame.visit_seq", DE, ["Visitor<'de> for AnyVisitor::visit_seq"], "AnyVisitor::visit_seq stores the elements unchanged, in order"),
    H("map_deserializer_value_step", "C13.K.frame.map_value", DE, ["MapAccess<'de> for MapDeserializer::next_value_seed"], "pending map value is handed to the seed unchanged"),
    H("key_bool_true", "C13.K.key.bool_true", DE, ["Deserializer<'de> for KeyDeserializer::macro deserialize_parse"], "map key \"true\" reads as bool true"),
    H("key_bool_false", "C13.K.key.bool_false", DE, ["Deserializer<'de> for KeyDeserializer::macro deserialize_parse"], "map key \"false\" reads as bool false"),
    H("key_native_scalars_pass_through", "C13.K.key.native", DE, ["Deserializer<'de> for KeyDeserializer::macro deserialize_parse"],
      "typed keys (i32, u64, f64) keep their value through KeyDeserializer, all values"),
    H("key_long_integer_literals", "C13.K.key.long_integer_literals", DE, ["Deserializer<'de> for KeyDeserializer::macro deserialize_parse"],
      "a 21-character decimal string key (longer than any 64-bit spelling) read as u128 is parsed and handed over", kind="bounded", bound="1 concrete literal of 21 characters", timeout=300),
    H("key_extreme_integer_literals", "C13.K.key.extreme_integer_literals", DE, ["Deserializer<'de> for KeyDeserializer::macro deserialize_parse"],
      "string keys at the ends of the 64-bit ranges (u64::MAX as u64, i64::MIN as i64) and a 22-character negative key as i128 are parsed with their own width's parser", kind="bounded", bound="3 concrete literals", timeout=300),
    H("key_u128_from_21_digit_strings", "C13.K.key.u128_21_digits", DE, ["Deserializer<'de> for KeyDeserializer::macro deserialize_parse"],
      "every 21-digit decimal string key read as u128 yields its numeric value", kind="bounded", bound="all 21-digit decimal strings", timeout=300),
    H("key_option_and_newtype_views", "C13.K.key.option_newtype", DE, ["Deserializer<'de> for KeyDeserializer::deserialize_option", "Deserializer<'de> for KeyDeserializer::deserialize_newtype_struct"],
      "optional keys (null -> None, otherwise Some via the key deserializer) and derive-shaped newtype keys keep their value", timeout=150),
    H("key_unit_variant_enum_view", "C13.K.key.enum", DE, ["Deserializer<'de> for KeyDeserializer::deserialize_enum", "EnumAccess<'de> for KeyDeserializer::variant_seed", "VariantAccess<'de> for UnitVariantDeserializer::unit_variant"],
      "enum map keys: the string form is viewed as that unit variant", timeout=150),
    H("key_lit_u8", "C13.K.key.literal.u8", DE, ["Deserializer<'de> for KeyDeserializer::macro deserialize_parse", "Deserializer<'de> for KeyDeserializer::macro deserialize_delegate"], "a string key read as u8 gives the spelled value", kind="bounded", bound="1 concrete literal", timeout=200),
    H("key_lit_i8", "C13.K.key.literal.i8", DE, ["Deserializer<'de> for KeyDeserializer::macro deserialize_parse", "Deserializer<'de> for KeyDeserializer::macro deserialize_delegate"], "a string key read as i8 gives the spelled value", kind="bounded", bound="1 concrete literal", timeout=200),
    H("key_lit_u16", "C13.K.key.literal.u16", DE, ["Deserializer<'de> for KeyDeserializer::macro deserialize_parse", "Deserializer<'de> for KeyDeserializer::macro deserialize_delegate"], "a string key read as u16 gives the spelled value", kind="bounded", bound="1 concrete literal", timeout=200),
    H("key_lit_i64", "C13.K.key.literal.i64", DE, ["Deserializer<'de> for KeyDeserializer::macro deserialize_parse", "Deserializer<'de> for KeyDeserializer::macro deserialize_delegate"], "a string key read as i64 gives the spelled value", kind="bounded", bound="1 concrete literal", timeout=200),
    H("key_lit_char", "C13.K.key.literal.char", DE, ["Deserializer<'de> for KeyDeserializer::macro deserialize_parse", "Deserializer<'de> for KeyDeserializer::macro deserialize_delegate"], "a string key read as char gives the spelled value", kind="bounded", bound="1 concrete literal", timeout=200),
    H("key_more_types_native", "C13.K.key.more_types_native", DE, ["Deserializer<'de> for KeyDeserializer::macro deserialize_parse"],
      "typed keys of every integer width, f32 (bitwise) and bool keep their value through the key deserializer (all values)", timeout=300),
    H("key_i32_from_string_len3", "C13.K.key.i32_string", DE, ["Deserializer<'de> for KeyDeserializer::macro deserialize_parse"],
      "string keys of <= 3 bytes read as i32 agree with str::parse", kind="bounded", bound="strings of <= 3 bytes", timeout=400),
]
# fix function lists (the placeholder above)
for h in _de:
    h["functions"] = [f for f in h["functions"] if isinstance(f, str)]

_ser = [
    H("scalar_slots", "C13.K.ser.scalar_slots", SER, ["Serializer for AnySerializer::serialize_" + t for t in ["bool"] + INTS + ["f32", "f64", "unit", "none", "unit_struct"]],
      "every scalar method of AnySerializer stores a value that re-serializes as the same JSON value (integers by numeric value, floats bitwise with their width)"),
    H("wrappers_are_transparent", "C13.K.ser.transparent", SER, ["Serializer for AnySerializer::serialize_some", "Serializer for AnySerializer::serialize_newtype_struct"],
      "Some(v) and newtype structs serialize as v"),
    H("seq_serializer_steps", "C13.K.frame.seq_serializer", SER, ["SerializeSeq for SeqSerializer::serialize_element", "SerializeSeq for SeqSerializer::end", "Serializer for AnySerializer::serialize_seq"],
      "SeqSerializer stores each element unchanged, in order"),
    H("tuple_serializer_steps", "C13.K.frame.tuple_serializer", SER, ["SerializeTuple for SeqSerializer::serialize_element", "SerializeTuple for SeqSerializer::end", "Serializer for AnySerializer::serialize_tuple"],
      "tuple serializer: same frame"),
    H("tuple_struct_serializer_steps", "C13.K.frame.tuple_struct_serializer", SER, ["SerializeTupleStruct for SeqSerializer::serialize_field", "SerializeTupleStruct for SeqSerializer::end", "Serializer for AnySerializer::serialize_tuple_struct"],
      "tuple-struct serializer: same frame"),
    H("any_seq_reserializes_elements_in_order", "C13.K.frame.serialize_seq", SER, ["Serialize for Any::serialize"],
      "serializing a sequence held in an Any re-emits its elements unchanged, in order, with the right length hint", timeout=300),
    H("newtype_variant_is_single_entry_map", "C13.K.frame.newtype_variant", SER, ["Serializer for AnySerializer::serialize_newtype_variant"],
      "a newtype variant is stored as the single-entry map {variant: payload} (all i64 payloads)", timeout=300),
    H("tuple_variant_is_single_entry_map_of_seq", "C13.K.frame.tuple_variant", SER, ["SerializeTupleVariant for TupleVariantSerializer::serialize_field", "SerializeTupleVariant for TupleVariantSerializer::end", "Serializer for AnySerializer::serialize_tuple_variant"],
      "a tuple variant is stored as {variant: [elements in order]}", timeout=300),
    H("map_serializer_entry_is_stored_as_that_pair", "C13.K.frame.map_entry", SER, ["SerializeMap for MapSerializer::serialize_key", "SerializeMap for MapSerializer::serialize_value", "SerializeMap for MapSerializer::end"],
      "a map entry with a typed (non-string) key is stored as exactly that key/value pair (all i32 keys, all f64 values bitwise)", timeout=300),
    H("struct_serializer_field_is_stored_under_its_name", "C13.K.frame.struct_field", SER, ["SerializeStruct for MapSerializer::serialize_field", "SerializeStruct for MapSerializer::end", "Serializer for AnySerializer::serialize_struct"],
      "a struct field is stored under its name with its value", timeout=300),
    H("sequences_of_u8_stay_sequences", "C13.K.frame.u8_sequences", SER, ["SerializeSeq for SeqSerializer::serialize_element", "SerializeSeq for SeqSerializer::end", "Serializer for AnySerializer::serialize_tuple", "Serializer for AnySerializer::serialize_seq", "Serializer for AnySerializer::serialize_tuple_struct"],
      "a list / tuple / tuple struct whose elements are all u8 stays a sequence of u8 (binary only arrives through serialize_bytes)", timeout=300),
    H("null_elements_and_fields_are_kept", "C13.K.frame.null_payloads", SER, ["SerializeSeq for SeqSerializer::serialize_element", "SerializeStruct for MapSerializer::serialize_field"],
      "unit / None elements and struct fields keep their slot (stored as null)", timeout=300),
    H("struct_variant_fields_are_kept", "C13.K.frame.struct_variant", SER, ["SerializeStructVariant for StructVariantSerializer::serialize_field", "SerializeStructVariant for StructVariantSerializer::end", "Serializer for AnySerializer::serialize_struct_variant"],
      "a struct variant is stored as {variant: {field: value}}, null-valued fields included", timeout=300),
    H("map_serializer_key_then_value", "C13.K.frame.map_key", SER, ["SerializeMap for MapSerializer::serialize_key", "Serializer for AnySerializer::serialize_map"],
      "serialize_key holds the typed key until the value arrives; nothing is inserted yet"),
    H("map_serializer_value_without_key_is_error", "C13.K.frame.map_value_without_key", SER, ["SerializeMap for MapSerializer::serialize_value"],
      "a value without a pending key is an error"),
]

KANI_UNITS = [
    dict(name="any_de", crate="conjure-object", modpath="any::de::verif_c13", injections=[dict(file=DE, module_fn=_mod("de.kani.rs"))], harnesses=_de),
    dict(name="any_ser", crate="conjure-object", modpath="any::ser::verif_c13", injections=[dict(file=SER, module_fn=_mod("ser.kani.rs"))], harnesses=_ser),
]

MUTANTS = [
    dict(name="u64_string_keys_parsed_as_i64", file=DE, **{"from": "deserialize_parse!(deserialize_u64 => visit_u64);", "to": "deserialize_parse!(deserialize_u64 => visit_i64);"},
         expect=["C13.K.key.extreme_integer_literals"]),
    dict(name="i128_string_keys_parsed_as_i64", file=DE, **{"from": "deserialize_parse!(deserialize_i128 => visit_i128);", "to": "deserialize_parse!(deserialize_i128 => visit_i64);"},
         expect=["C13.K.key.extreme_integer_literals"]),
    dict(name="drop_i128_forwarding", file=DE, **{"from": "bool i8 i16 i32 i64 i128 u8 u16 u32 u64 u128 char", "to": "bool i8 i16 i32 i64 u8 u16 u32 u64 char"},
         expect=["C13.K.scalar_roundtrip.i128", "C13.K.scalar_roundtrip.u128"]),
    dict(name="visit_u32_stored_as_i32", file=DE, **{"from": "Ok(Any(Inner::U32(v)))\n    }\n\n    fn visit_u64", "to": "Ok(Any(Inner::I32(v as i32)))\n    }\n\n    fn visit_u64"},
         expect=["C13.K.event_identity.u32"]),
    dict(name="f32_widened_on_store", file=SER, **{"from": "Ok(Any(Inner::F32(OrderedFloat(v))))", "to": "Ok(Any(Inner::F64(OrderedFloat(v as f64))))"},
         expect=["C13.K.same_event.f32", "C13.K.ser.scalar_slots"]),
    dict(name="seq_deserializer_reversed", file=DE, **{"from": "match self.0.next() {\n            Some(value) => seed.deserialize(value).map(Some),", "to": "match self.0.next_back() {\n            Some(value) => seed.deserialize(value).map(Some),"},
         expect=["C13.K.frame.seq_deserializer", "C13.K.frame.visit_seq"]),
    dict(name="negative_infinity_coerced_to_positive", file=DE, **{"from": "Inner::String(v) if v == \"-Infinity\" => visitor.visit_f64(f64::NEG_INFINITY)", "to": "Inner::String(v) if v == \"-Infinity\" => visitor.visit_f64(f64::INFINITY)"},
         expect=["C13.K.coerce.neg_infinity"]),
]

BENIGN = [
    # equivalent mutants found by the mechanical sweep (DESIGN 8.17): unobservable under serde's protocol / same numeric value
    dict(name="map_serializer_key_cloned_not_taken", file=SER, **{"from": "        let key = match self.key.take() {", "to": "        let key = match self.key.clone() {"}),
    dict(name="map_deserializer_value_cloned_not_taken", file=DE, **{"from": "        match self.value.take() {", "to": "        match self.value.clone() {"}),
    dict(name="i8_arm_visits_i16", file=DE, **{"from": "            Inner::I8(v) => visitor.visit_i8(v),", "to": "            Inner::I8(v) => visitor.visit_i16(v as i16),"}),
    dict(name="deserialize_any_arms_reordered", file=DE, **{"from": "            Inner::Null => visitor.visit_unit(),\n            Inner::Bool(v) => visitor.visit_bool(v),", "to": "            Inner::Bool(v) => visitor.visit_bool(v),\n            Inner::Null => visitor.visit_unit(),"}),
    dict(name="serialize_element_local_renamed", file=SER, **{"from": "        let value = Any::new(value)?;\n        self.0.push(value);\n        Ok(())\n    }\n\n    #[inline]\n    fn end(self) -> Result<Self::Ok, Self::Error> {\n        Ok(Any(Inner::Seq(self.0)))", "to": "        let element = Any::new(value)?;\n        self.0.push(element);\n        Ok(())\n    }\n\n    #[inline]\n    fn end(self) -> Result<Self::Ok, Self::Error> {\n        Ok(Any(Inner::Seq(self.0)))"}),
]
