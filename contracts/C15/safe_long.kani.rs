// Kani harness module for C15, appended to a scratch copy of conjure-object/src/safe_long.rs on every run
// (so that the private field and the macro-expanded impls are visible). Nothing here exists in /repo.
#[cfg(kani)]
mod verif_c15 {
    use super::*;
    use std::convert::TryFrom;

    // the range of the property statement
    const MAX: i64 = 9007199254740991;
    const MIN: i64 = -9007199254740991;

    pub fn in_range_i128(v: i128) -> bool {
        v >= MIN as i128 && v <= MAX as i128
    }
    pub fn in_range_u128(v: u128) -> bool {
        v <= MAX as u128
    }

    pub fn wf(s: &SafeLong) -> bool {
        s.0 >= MIN && s.0 <= MAX
    }

    /// postcondition of `SafeLong::new` (also attached to the function as `kani::ensures`)
    pub fn new_post(value: i64, r: &Result<SafeLong, BoundsError>) -> bool {
        match r {
            Ok(s) => s.0 == value && value >= MIN && value <= MAX,
            Err(_) => value < MIN || value > MAX,
        }
    }

    impl kani::Arbitrary for SafeLong {
        fn any() -> Self {
            let v: i64 = kani::any();
            kani::assume(v >= MIN && v <= MAX);
            SafeLong(v)
        }
    }

    // ---- the constructor's own contract -------------------------------------------------------

    #[kani::proof]
    fn min_max_values() {
        assert!(SafeLong::min_value().0 == MIN);
        assert!(SafeLong::max_value().0 == MAX);
        // (which value Default yields is not part of the property; it must be in range)
        assert!(wf(&SafeLong::default()));
        kani::cover!(true);
    }

    // ---- TryFrom<wide> : direct (inlines `new`) and modular (against `new`'s contract) ----------
    macro_rules! try_from_harness {
        ($direct:ident, $t:ty, $rng:ident, $wide:ty) => {
            #[kani::proof]
            fn $direct() {
                let v: $t = kani::any();
                let r = SafeLong::try_from(v);
                let in_range = $rng(v as $wide);
                match r {
                    Ok(s) => {
                        assert!(wf(&s));
                        assert!(s.0 as i128 == v as i128);
                        assert!(in_range);
                    }
                    Err(_) => assert!(!in_range),
                }
                kani::cover!(in_range);
                kani::cover!(!in_range);
            }
        };
    }
    try_from_harness!(try_from_u64, u64, in_range_u128, u128);
    try_from_harness!(try_from_i64, i64, in_range_i128, i128);
    try_from_harness!(try_from_u128, u128, in_range_u128, u128);
    try_from_harness!(try_from_i128, i128, in_range_i128, i128);
    try_from_harness!(try_from_usize, usize, in_range_u128, u128);
    try_from_harness!(try_from_isize, isize, in_range_i128, i128);

    //@@MODULAR@@

    // ---- From<narrow> ---------------------------------------------------------------------------
    macro_rules! from_harness {
        ($name:ident, $t:ty) => {
            #[kani::proof]
            fn $name() {
                let v: $t = kani::any();
                let s = SafeLong::from(v);
                assert!(wf(&s));
                assert!(s.0 as i128 == v as i128);
                kani::cover!(true);
            }
        };
    }
    from_harness!(from_u8, u8);
    from_harness!(from_i8, i8);
    from_harness!(from_u16, u16);
    from_harness!(from_i16, i16);
    from_harness!(from_u32, u32);
    from_harness!(from_i32, i32);

    // ---- out-conversions keep the value -----------------------------------------------------------
    #[kani::proof]
    fn into_i64_i128_deref() {
        let s: SafeLong = kani::any();
        let a: i64 = s.into();
        let b: i128 = s.into();
        assert!(a == s.0 && b == s.0 as i128 && *s == s.0);
        assert!(a >= MIN && a <= MAX);
        kani::cover!(true);
    }

    // TryFrom<SafeLong> for the narrower / unsigned types: Ok exactly when the value fits, and then it is the value
    macro_rules! try_into_harness {
        ($name:ident, $t:ty) => {
            #[kani::proof]
            fn $name() {
                let s: SafeLong = kani::any();
                let fits = (s.0 as i128) >= (<$t>::MIN as i128) && (s.0 as i128) <= (<$t>::MAX as u128 as i128).max(if (<$t>::MAX as u128) > i128::MAX as u128 { i128::MAX } else { <$t>::MAX as i128 });
                match <$t>::try_from(s) {
                    Ok(v) => {
                        assert!(fits);
                        assert!(v as i128 == s.0 as i128);
                    }
                    Err(_) => assert!(!fits),
                }
                kani::cover!(fits);
            }
        };
    }
    try_into_harness!(try_into_u8, u8);
    try_into_harness!(try_into_i8, i8);
    try_into_harness!(try_into_u16, u16);
    try_into_harness!(try_into_i16, i16);
    try_into_harness!(try_into_u32, u32);
    try_into_harness!(try_into_i32, i32);
    try_into_harness!(try_into_u64, u64);
    try_into_harness!(try_into_u128, u128);
    try_into_harness!(try_into_usize, usize);
    try_into_harness!(try_into_isize, isize);

    // ---- Deserialize: one scalar event of every serde kind, formatting-free error type -------------
    #[derive(Debug)]
    pub struct MockErr;
    impl fmt::Display for MockErr {
        fn fmt(&self, _: &mut fmt::Formatter<'_>) -> fmt::Result {
            Ok(())
        }
    }
    impl Error for MockErr {}
    impl de::Error for MockErr {
        fn custom<T: fmt::Display>(_: T) -> Self {
            MockErr
        }
        fn invalid_type(_: de::Unexpected, _: &dyn de::Expected) -> Self {
            MockErr
        }
        fn invalid_value(_: de::Unexpected, _: &dyn de::Expected) -> Self {
            MockErr
        }
    }

    #[derive(Clone, Copy)]
    pub enum Ev {
        I8(i8),
        I16(i16),
        I32(i32),
        I64(i64),
        I128(i128),
        U8(u8),
        U16(u16),
        U32(u32),
        U64(u64),
        U128(u128),
        F32(f32),
        F64(f64),
        Bool(bool),
        Unit,
    }
    pub struct EvDe(pub Ev);
    impl<'de> de::Deserializer<'de> for EvDe {
        type Error = MockErr;
        fn deserialize_any<V: de::Visitor<'de>>(self, v: V) -> Result<V::Value, Self::Error> {
            match self.0 {
                Ev::I8(x) => v.visit_i8(x),
                Ev::I16(x) => v.visit_i16(x),
                Ev::I32(x) => v.visit_i32(x),
                Ev::I64(x) => v.visit_i64(x),
                Ev::I128(x) => v.visit_i128(x),
                Ev::U8(x) => v.visit_u8(x),
                Ev::U16(x) => v.visit_u16(x),
                Ev::U32(x) => v.visit_u32(x),
                Ev::U64(x) => v.visit_u64(x),
                Ev::U128(x) => v.visit_u128(x),
                Ev::F32(x) => v.visit_f32(x),
                Ev::F64(x) => v.visit_f64(x),
                Ev::Bool(x) => v.visit_bool(x),
                Ev::Unit => v.visit_unit(),
            }
        }
        serde::forward_to_deserialize_any! { bool i8 i16 i32 i64 i128 u8 u16 u32 u64 u128 f32 f64 char str string bytes byte_buf option unit unit_struct newtype_struct seq tuple tuple_struct map struct enum identifier ignored_any }
    }

    macro_rules! de_int_harness {
        ($name:ident, $variant:ident, $t:ty, $rng:ident, $wide:ty) => {
            #[kani::proof]
            fn $name() {
                let v: $t = kani::any();
                let in_range = $rng(v as $wide);
                match <SafeLong as de::Deserialize>::deserialize(EvDe(Ev::$variant(v))) {
                    Ok(s) => {
                        assert!(wf(&s));
                        assert!(s.0 as i128 == v as i128);
                    }
                    // every integer inside the range is accepted
                    Err(_) => assert!(!in_range),
                }
                kani::cover!(in_range);
            }
        };
    }
    de_int_harness!(de_i8, I8, i8, in_range_i128, i128);
    de_int_harness!(de_i16, I16, i16, in_range_i128, i128);
    de_int_harness!(de_i32, I32, i32, in_range_i128, i128);
    de_int_harness!(de_i64, I64, i64, in_range_i128, i128);
    de_int_harness!(de_u8, U8, u8, in_range_u128, u128);
    de_int_harness!(de_u16, U16, u16, in_range_u128, u128);
    de_int_harness!(de_u32, U32, u32, in_range_u128, u128);
    de_int_harness!(de_u64, U64, u64, in_range_u128, u128);

    // floats, bool, unit: never a safelong outside the range (acceptance is serde's choice)
    macro_rules! de_other_harness {
        ($name:ident, $ev:expr) => {
            #[kani::proof]
            fn $name() {
                if let Ok(s) = <SafeLong as de::Deserialize>::deserialize(EvDe($ev)) {
                    assert!(wf(&s));
                }
                kani::cover!(true);
            }
        };
    }
    de_other_harness!(de_f32_event, Ev::F32(kani::any()));
    de_other_harness!(de_f64_event, Ev::F64(kani::any()));
    de_other_harness!(de_bool_event, Ev::Bool(kani::any()));
    de_other_harness!(de_unit_event, Ev::Unit);

    // 128-bit events: serde's default visit_i128/visit_u128 formats the value into its error message;
    // message formatting is stubbed out (it cannot influence the Ok/Err outcome or the value).
    pub fn nofmt_write(_: &mut dyn fmt::Write, _: fmt::Arguments<'_>) -> fmt::Result {
        Ok(())
    }

    #[kani::proof]
    #[kani::stub(core::fmt::write, nofmt_write)]
    fn de_i128_event() {
        let x: i128 = kani::any();
        if let Ok(s) = <SafeLong as de::Deserialize>::deserialize(EvDe(Ev::I128(x))) {
            assert!(wf(&s));
            assert!(s.0 as i128 == x);
        }
        kani::cover!(true);
    }

    #[kani::proof]
    #[kani::stub(core::fmt::write, nofmt_write)]
    fn de_u128_event() {
        let x: u128 = kani::any();
        if let Ok(s) = <SafeLong as de::Deserialize>::deserialize(EvDe(Ev::U128(x))) {
            assert!(wf(&s));
            assert!(s.0 >= 0 && s.0 as u128 == x);
        }
        kani::cover!(true);
    }

    // ---- Serialize emits the wrapped value as an i64 event ------------------------------------------
    // (needed so that "keeps its value" holds across ser -> de)
    pub struct RecSer;
    pub static mut REC: Option<i64> = None;
    impl ser::Serializer for RecSer {
        type Ok = ();
        type Error = RecErr;
        type SerializeSeq = ser::Impossible<(), RecErr>;
        type SerializeTuple = ser::Impossible<(), RecErr>;
        type SerializeTupleStruct = ser::Impossible<(), RecErr>;
        type SerializeTupleVariant = ser::Impossible<(), RecErr>;
        type SerializeMap = ser::Impossible<(), RecErr>;
        type SerializeStruct = ser::Impossible<(), RecErr>;
        type SerializeStructVariant = ser::Impossible<(), RecErr>;
        fn serialize_i64(self, v: i64) -> Result<(), RecErr> {
            unsafe { REC = Some(v) };
            Ok(())
        }
        fn serialize_bool(self, _: bool) -> Result<(), RecErr> { Err(RecErr) }
        fn serialize_i8(self, _: i8) -> Result<(), RecErr> { Err(RecErr) }
        fn serialize_i16(self, _: i16) -> Result<(), RecErr> { Err(RecErr) }
        fn serialize_i32(self, _: i32) -> Result<(), RecErr> { Err(RecErr) }
        fn serialize_u8(self, _: u8) -> Result<(), RecErr> { Err(RecErr) }
        fn serialize_u16(self, _: u16) -> Result<(), RecErr> { Err(RecErr) }
        fn serialize_u32(self, _: u32) -> Result<(), RecErr> { Err(RecErr) }
        fn serialize_u64(self, _: u64) -> Result<(), RecErr> { Err(RecErr) }
        fn serialize_f32(self, _: f32) -> Result<(), RecErr> { Err(RecErr) }
        fn serialize_f64(self, _: f64) -> Result<(), RecErr> { Err(RecErr) }
        fn serialize_char(self, _: char) -> Result<(), RecErr> { Err(RecErr) }
        fn serialize_str(self, _: &str) -> Result<(), RecErr> { Err(RecErr) }
        fn serialize_bytes(self, _: &[u8]) -> Result<(), RecErr> { Err(RecErr) }
        fn serialize_none(self) -> Result<(), RecErr> { Err(RecErr) }
        fn serialize_some<T: ?Sized + ser::Serialize>(self, _: &T) -> Result<(), RecErr> { Err(RecErr) }
        fn serialize_unit(self) -> Result<(), RecErr> { Err(RecErr) }
        fn serialize_unit_struct(self, _: &'static str) -> Result<(), RecErr> { Err(RecErr) }
        fn serialize_unit_variant(self, _: &'static str, _: u32, _: &'static str) -> Result<(), RecErr> { Err(RecErr) }
        fn serialize_newtype_struct<T: ?Sized + ser::Serialize>(self, _: &'static str, _: &T) -> Result<(), RecErr> { Err(RecErr) }
        fn serialize_newtype_variant<T: ?Sized + ser::Serialize>(self, _: &'static str, _: u32, _: &'static str, _: &T) -> Result<(), RecErr> { Err(RecErr) }
        fn serialize_seq(self, _: Option<usize>) -> Result<Self::SerializeSeq, RecErr> { Err(RecErr) }
        fn serialize_tuple(self, _: usize) -> Result<Self::SerializeTuple, RecErr> { Err(RecErr) }
        fn serialize_tuple_struct(self, _: &'static str, _: usize) -> Result<Self::SerializeTupleStruct, RecErr> { Err(RecErr) }
        fn serialize_tuple_variant(self, _: &'static str, _: u32, _: &'static str, _: usize) -> Result<Self::SerializeTupleVariant, RecErr> { Err(RecErr) }
        fn serialize_map(self, _: Option<usize>) -> Result<Self::SerializeMap, RecErr> { Err(RecErr) }
        fn serialize_struct(self, _: &'static str, _: usize) -> Result<Self::SerializeStruct, RecErr> { Err(RecErr) }
        fn serialize_struct_variant(self, _: &'static str, _: u32, _: &'static str, _: usize) -> Result<Self::SerializeStructVariant, RecErr> { Err(RecErr) }
    }
    #[derive(Debug)]
    pub struct RecErr;
    impl fmt::Display for RecErr {
        fn fmt(&self, _: &mut fmt::Formatter<'_>) -> fmt::Result { Ok(()) }
    }
    impl Error for RecErr {}
    impl ser::Error for RecErr {
        fn custom<T: fmt::Display>(_: T) -> Self { RecErr }
    }

    #[kani::proof]
    fn serialize_emits_value() {
        let s: SafeLong = kani::any();
        let r = ser::Serialize::serialize(&s, RecSer);
        assert!(r.is_ok());
        assert!(unsafe { REC } == Some(s.0));
        kani::cover!(true);
    }

    // ---- text: FromStr constructs only through `new` (modular), boundary literals concrete ---------

    #[kani::proof]
    #[kani::unwind(22)]
    fn from_str_rejects_out_of_range() {
        // out-of-range numerals are errors; whether non-numerals ("", "1.0", " 1", "1e3") are rejected is the parser's
        // business, but they must never produce an out-of-range value
        let bad = ["9007199254740992", "-9007199254740992", "9223372036854775807", "-9223372036854775808", "9223372036854775808", "", "1.0", " 1", "1e3"];
        let i: usize = kani::any();
        kani::assume(i < bad.len());
        match SafeLong::from_str(bad[i]) {
            Ok(v) => assert!(i >= 5 && wf(&v)),
            Err(_) => {}
        }
        kani::cover!(true);
    }

    // bounded: every string of at most 3 bytes
    #[kani::proof]
    #[kani::unwind(6)]
    fn from_str_bounded3() {
        let b: [u8; 3] = kani::any();
        let n: usize = kani::any();
        kani::assume(n <= 3);
        if let Ok(s) = std::str::from_utf8(&b[..n]) {
            // canonical decimal spelling: "0" or an optional '-' followed by digits without a leading zero
            let d = &b[..n];
            let digits = if n > 0 && d[0] == b'-' { &d[1..] } else { d };
            let mut all_digits = digits.len() > 0;
            let mut i = 0;
            while i < digits.len() {
                if digits[i] < b'0' || digits[i] > b'9' {
                    all_digits = false;
                }
                i += 1;
            }
            let canonical = all_digits && (digits[0] != b'0' || (digits.len() == 1 && n == 1));
            // the number a canonical spelling denotes (at most three characters: no overflow)
            let mut denoted: i64 = 0;
            let mut j = 0;
            while j < digits.len() {
                denoted = denoted * 10 + (digits[j].wrapping_sub(b'0') as i64);
                j += 1;
            }
            if n > 0 && d[0] == b'-' {
                denoted = -denoted;
            }
            match SafeLong::from_str(s) {
                Ok(v) => {
                    // whatever is accepted is in range; a canonical spelling keeps its value
                    assert!(wf(&v));
                    assert!(!canonical || v.0 == denoted);
                }
                // every canonical spelling of an in-range integer is accepted (other spellings such as "+1", "01" or " 1"
                // are the parser's choice and not part of the property)
                Err(_) => assert!(!canonical),
            }
        }
        kani::cover!(true);
    }

    // ---- PLAIN decoding goes through FromStr ------------------------------------------------------
    #[kani::proof]
    #[kani::unwind(22)]
    fn from_plain_boundaries() {
        use crate::plain::FromPlain;
        let lits = ["9007199254740991", "-9007199254740991", "9007199254740992", "-9007199254740992"];
        let i: usize = kani::any();
        kani::assume(i < lits.len());
        match <SafeLong as FromPlain>::from_plain(lits[i]) {
            Ok(s) => {
                assert!(i < 2);
                assert!(s.0 == if i == 0 { MAX } else { MIN });
            }
            Err(_) => assert!(i >= 2),
        }
        kani::cover!(true);
    }
}
