    // needed by stub_verified(SafeLong::new) only (the direct unit does not depend on the shape of the error type)
    impl kani::Arbitrary for BoundsError {
        fn any() -> Self {
            BoundsError(())
        }
    }

    #[kani::proof_for_contract(SafeLong::new)]
    fn new_contract() {
        let v: i64 = kani::any();
        let r = SafeLong::new(v);
        assert!(new_post(v, &r));
        kani::cover!(r.is_ok());
        kani::cover!(r.is_err());
    }

    // ---- callers checked against `new`'s contract only (the body of `new` is replaced by its contract) ----
    macro_rules! try_from_modular {
        ($modular:ident, $t:ty, $rng:ident, $wide:ty) => {
            #[kani::proof]
            #[kani::stub_verified(SafeLong::new)]
            fn $modular() {
                let v: $t = kani::any();
                let r = SafeLong::try_from(v);
                let in_range = $rng(v as $wide);
                match r {
                    Ok(s) => {
                        assert!(wf(&s));
                        assert!(s.0 as i128 == v as i128);
                        assert!(in_range);
                    }
                    Err(_) => assert!(!in_range),
                }
                kani::cover!(true);
            }
        };
    }
    try_from_modular!(try_from_u64_modular, u64, in_range_u128, u128);
    try_from_modular!(try_from_i64_modular, i64, in_range_i128, i128);
    try_from_modular!(try_from_u128_modular, u128, in_range_u128, u128);
    try_from_modular!(try_from_i128_modular, i128, in_range_i128, i128);
    try_from_modular!(try_from_usize_modular, usize, in_range_u128, u128);
    try_from_modular!(try_from_isize_modular, isize, in_range_i128, i128);

    #[kani::proof]
    #[kani::stub_verified(SafeLong::new)]
    #[kani::unwind(20)]
    fn from_str_boundaries() {
        // accepted: both bounds, with sign and leading zeros
        // canonical spellings only: a leading '+', leading zeros or "-0" are the parser's choice, not the property's
        let ok = ["9007199254740991", "-9007199254740991", "0", "1", "-1", "4503599627370496"];
        let vals = [MAX, MIN, 0, 1, -1, 4503599627370496];
        let i: usize = kani::any();
        kani::assume(i < ok.len());
        match SafeLong::from_str(ok[i]) {
            Ok(s) => assert!(s.0 == vals[i]),
            Err(_) => assert!(false),
        }
        kani::cover!(true);
    }
