"""C15 — No path ever produces a safelong outside the 53-bit safe range."""
import os, re
from vf import vx, Undecided

F = "conjure-object/src/safe_long.rs"
FN = lambda n: F + "::" + n

TRUSTED = [
    "rustc, Verus 0.2026.09.13 + z3, Kani 0.68 + CBMC 6.11",
    "core::str::<impl FromStr for i64> (text routes are bounded/concrete only)",
    "serde primitive i64 visitor is executed by Kani, not assumed",
    "parametricity: Deserialize for SafeLong is generic in D and cannot inspect it; JSON, Smile, `any`, map-key deserializers reach SafeLong only through this impl",
]
ASSUMPTIONS = [
    "cfg(kani) harness module appended to a scratch copy; executable text of /repo is unchanged",
    "Verus unit: struct declarations SafeLong(i64)/BoundsError(()) are re-declared by hand without derives (checked by scan C15.S.struct_shape)",
    "Verus treats exec i64 as finite (overflow is an obligation); Kani is bit-precise",
    "termination is not checked by Kani",
    "core::fmt::write is stubbed to a no-op in the two 128-bit event harnesses (serde formats the value into an error message; the message cannot influence Ok/Err or the value)",
]
NOT_DECIDED = [
    "unbounded text parsing (i64::from_str is trusted; from_str is proved to construct only through `new`)",
    "JSON/Smile parsers producing the integer event (serde_json / serde_smile)",
]

VERUS_UNITS = [dict(
    name="safelong", template="safelong.verus.rs",
    obligations=[
        dict(name="C15.V.min_value.post", vfn="SafeLong::min_value", functions=[FN("SafeLong::min_value")], twin=["C15.K.min_max_values"],
             desc="min_value() == -(2^53-1)"),
        dict(name="C15.V.max_value.post", vfn="SafeLong::max_value", functions=[FN("SafeLong::max_value")], twin=["C15.K.min_max_values"],
             desc="max_value() == 2^53-1"),
        dict(name="C15.V.new.post", vfn="SafeLong::new", functions=[FN("SafeLong::new")], twin=["C15.K.new.contract"],
             desc="new(v) is Ok iff v in [-(2^53-1), 2^53-1]; Ok(s) => s == v and wf(s)"),
        dict(name="C15.V.deref.post", vfn="SafeLong::deref", functions=[FN("Deref for SafeLong::deref")], twin=["C15.K.into_deref"],
             desc="*s is the wrapped value"),
    ])]

NEW_ENSURES = "#[cfg_attr(kani, kani::ensures(|r: &Result<SafeLong, BoundsError>| verif_c15::new_post(value, r)))]"

def H(name, ob, fns, desc, kind="complete", bound=None, tier="quick", timeout=300):
    return dict(name=name, ob=ob, functions=[FN(f) for f in fns], desc=desc, kind=kind, bound=bound, tier=tier, timeout=timeout)

_h = [
    H("new_contract", "C15.K.new.contract", ["SafeLong::new", "SafeLong::min_value", "SafeLong::max_value"],
      "proof_for_contract(SafeLong::new): Ok iff in range, value kept; all 2^64 inputs"),
    H("min_max_values", "C15.K.min_max_values", ["SafeLong::min_value", "SafeLong::max_value"], "bounds are exactly +-(2^53-1); Default is in range"),
    H("into_i64_i128_deref", "C15.K.into_deref", ["macro impl_into", "Deref for SafeLong::deref"], "From<SafeLong> for i64/i128 and Deref keep the value"),
    H("serialize_emits_value", "C15.K.serialize", ["ser::Serialize for SafeLong::serialize"], "Serialize emits exactly one i64 event carrying the value"),
    H("de_i128_event", "C15.K.deserialize.i128_event", ["de::Deserialize<'de> for SafeLong::deserialize"],
      "i128 event never yields an out-of-range safelong; accepted => value kept", timeout=200),
    H("de_u128_event", "C15.K.deserialize.u128_event", ["de::Deserialize<'de> for SafeLong::deserialize"],
      "u128 event never yields an out-of-range safelong; accepted => value kept", timeout=200),
    H("from_str_boundaries", "C15.K.from_str.boundaries_modular", ["FromStr for SafeLong::from_str"],
      "from_str against new's contract (stub_verified): boundary literals accepted with their value", kind="bounded", bound="6 concrete literals"),
    H("from_str_rejects_out_of_range", "C15.K.from_str.rejects", ["FromStr for SafeLong::from_str"],
      "out-of-range / malformed literals rejected", kind="bounded", bound="9 concrete literals"),
    H("from_plain_boundaries", "C15.K.from_plain.boundaries", ["FromStr for SafeLong::from_str", "conjure-object/src/plain.rs::macro as_from_str"],
      "PLAIN decoding accepts both bounds, rejects their neighbours", kind="bounded", bound="4 concrete literals"),
    H("from_str_bounded3", "C15.K.from_str.bounded3", ["FromStr for SafeLong::from_str"],
      "all byte strings of length <= 3: what from_str accepts is in range and is the denoted number; every canonical decimal spelling is accepted", kind="bounded", bound="all strings of <= 3 bytes", timeout=900),
]
for t in ["u64", "i64", "u128", "i128", "usize", "isize"]:
    _h.append(H("try_from_" + t, "C15.K.try_from.%s" % t, ["macro impl_try_from", "SafeLong::new"],
                "TryFrom<%s>: Ok iff numerically in range, value kept (all inputs)" % t))
    _h.append(H("try_from_%s_modular" % t, "C15.K.try_from.%s.modular" % t, ["macro impl_try_from"],
                "TryFrom<%s> checked against SafeLong::new's contract (stub_verified)" % t))
for t in ["u8", "i8", "u16", "i16", "u32", "i32"]:
    _h.append(H("from_" + t, "C15.K.from.%s" % t, ["macro impl_from"], "From<%s> yields wf and keeps the value" % t))
for t in ["u8", "i8", "u16", "i16", "u32", "i32", "u64", "u128", "usize", "isize"]:
    _h.append(H("try_into_" + t, "C15.K.try_into.%s" % t, ["macro impl_try_into"], "TryFrom<SafeLong> for %s: Ok exactly when the value fits, and then it is the value (all safelongs)" % t))
for t in ["f32", "f64", "bool", "unit"]:
    _h.append(H("de_%s_event" % t, "C15.K.deserialize.%s_event" % t, ["de::Deserialize<'de> for SafeLong::deserialize"],
                "%s event never yields an out-of-range safelong" % t))
for t in ["i8", "i16", "i32", "i64", "u8", "u16", "u32", "u64"]:
    _h.append(H("de_" + t, "C15.K.deserialize.%s" % t, ["de::Deserialize<'de> for SafeLong::deserialize", "SafeLong::new"],
                "Deserialize on an %s event: Ok => wf and value kept; in-range => accepted (all payloads)" % t))

_HERE = os.path.dirname(os.path.abspath(__file__))
_MODULAR = {"new_contract", "from_str_boundaries"} | {h["name"] for h in _h if h["name"].endswith("_modular")}

def _module(modular):
    s = open(os.path.join(_HERE, "safe_long.kani.rs")).read()
    m = open(os.path.join(_HERE, "safe_long.modular.kani.rs")).read() if modular else ""
    assert "//@@MODULAR@@" in s
    return s.replace("//@@MODULAR@@", m)

KANI_UNITS = [
    # direct: the real bodies are inlined; the failing check is the harness's own assertion, so that a
    # counterexample replays natively
    dict(name="safe_long", crate="conjure-object", modpath="safe_long::verif_c15",
         injections=[dict(file=F, module_fn=lambda ws: _module(False))],
         harnesses=[h for h in _h if h["name"] not in _MODULAR]),
    # modular: `new` carries its contract as kani::ensures; it is proved with proof_for_contract and the
    # callers are checked against the contract only (stub_verified)
    dict(name="safe_long_modular", crate="conjure-object", modpath="safe_long::verif_c15",
         injections=[dict(file=F, module_fn=lambda ws: _module(True), attrs=[dict(key="SafeLong::new", text=NEW_ENSURES)])],
         harnesses=[h for h in _h if h["name"] in _MODULAR]),
]


# ------------------------------------------------------------------ syntactic frame scans (not counted as proof)
# construction sites inside these items are covered by complete obligations (every instantiation of the macros has its
# own full-domain harness); anything else is reported as *undecided* (needs a contract), never as a violation
ALLOWED_CTOR_FNS = {"SafeLong::min_value", "SafeLong::max_value", "SafeLong::new", "macro_rules impl_from", "macro_rules impl_try_from",
                    "de::Deserialize<'de> for SafeLong::deserialize"}

def scan_constructors(repo):
    """Every expression constructing SafeLong(..) in conjure-object must lie inside a function under contract."""
    bad = []
    n = 0
    root = os.path.join(repo, "conjure-object", "src")
    for dp, _, fs in os.walk(root):
        for f in fs:
            if not f.endswith(".rs"):
                continue
            p = os.path.join(dp, f)
            doc = vx(p, ctors=["SafeLong"])
            for s in doc["ctor_sites"]:
                if s["delim"] != "paren":
                    continue
                # enclosing item
                enc = None
                for it in doc["items"]:
                    if it["kind"] in ("fn", "macro") and it["start"] <= s["start"] < it["end"]:
                        enc = it
                if enc is not None and enc["kind"] == "struct":
                    continue
                key = enc["key"] if enc else "<top level>"
                # the struct declaration `struct SafeLong(i64)` is filtered by vx; patterns are reported too
                n += 1
                rel = os.path.relpath(p, repo)
                if rel != F or key not in ALLOWED_CTOR_FNS:
                    bad.append("%s:%d in `%s`" % (rel, s["line"], key))
    if n == 0:
        raise Undecided("constructor scan found no construction site at all (anchor lost)")
    if bad:
        return False, "SafeLong(..) constructed outside the functions under contract: " + "; ".join(bad)
    return True, "%d construction sites, all inside %s" % (n, sorted(ALLOWED_CTOR_FNS))

def scan_struct_shape(repo):
    doc = vx(os.path.join(repo, F))
    it = [i for i in doc["items"] if i["key"] == "struct SafeLong"]
    if not it:
        raise Undecided("struct SafeLong not found")
    t = doc["src"][it[0]["noattr_start"]:it[0]["end"]]
    ok = re.sub(r"\s+", "", t) == "pubstructSafeLong(i64);"
    if not ok:
        raise Undecided("struct SafeLong changed shape (%s): the Verus unit's hand-written declaration no longer matches" % t.strip())
    return True, "struct SafeLong(i64) with a private field"

SCANS = [
    dict(name="C15.S.frame.constructors", fn=scan_constructors, desc="syntactic: all SafeLong(..) construction sites are under contract"),
    dict(name="C15.S.struct_shape", fn=scan_struct_shape, desc="syntactic: struct SafeLong(i64), private field"),
]

MUTANTS = [
    dict(name="max_bound_off_by_one", file=F, **{"from": "SafeLong((1 << 53) - 1)", "to": "SafeLong(1 << 53)"},
         expect=["C15.V.max_value.post", "C15.K.new.contract", "C15.K.min_max_values"]),
    dict(name="new_and_to_or", file=F, **{"from": "value >= *SafeLong::min_value() && value", "to": "value >= *SafeLong::min_value() || value"},
         expect=["C15.V.new.post", "C15.K.new.contract"]),
    dict(name="try_from_bypasses_new", file=F, **{"from": ".and_then(SafeLong::new)", "to": ".map(SafeLong)"},
         expect=["C15.K.try_from.i64", "C15.K.try_from.u64", "C15.S.frame.constructors"]),
    dict(name="deserialize_bypasses_new", file=F,
         **{"from": "SafeLong::new(value)\n            .map_err(|_| de::Error::invalid_value(de::Unexpected::Signed(value), &\"a safe long\"))",
            "to": "Ok(SafeLong(value))"},
         expect=["C15.K.deserialize.i64", "C15.S.frame.constructors"]),
]

# harmless edits: must NOT raise a violation (exit 0, or 2 when an anchor is legitimately lost)
BENIGN = [
    dict(name="new_conjuncts_swapped", file=F, **{"from": "value >= *SafeLong::min_value() && value <= *SafeLong::max_value()", "to": "value <= *SafeLong::max_value() && value >= *SafeLong::min_value()"}),
    dict(name="max_value_written_differently", file=F, **{"from": "SafeLong((1 << 53) - 1)", "to": "SafeLong(0x1f_ffff_ffff_ffff)"}),
    dict(name="deserialize_local_renamed", file=F, **{"from": "        let value = i64::deserialize(d)?;\n        SafeLong::new(value)\n            .map_err(|_| de::Error::invalid_value(de::Unexpected::Signed(value), &\"a safe long\"))",
         "to": "        let raw = i64::deserialize(d)?;\n        SafeLong::new(raw)\n            .map_err(|_| de::Error::invalid_value(de::Unexpected::Signed(raw), &\"a safe long\"))"}),
]
