// Verus unit C15/safelong. Everything between `//@@ fn` and `//@@ end` is replaced, on every run, by the
// text of the named function taken byte-for-byte from the current working tree of /repo, with the contract
// pieces of the block inserted (see lib/vf.py: build_verus_unit). Hand-written here: the two type
// declarations (needed because the originals carry derives Verus cannot expand), spec functions, contracts.
//@@ source conjure-object/src/safe_long.rs
use vstd::prelude::*;
verus! {

pub struct BoundsError(());

pub struct SafeLong(i64);

// the range of the property statement: [-(2^53-1), 2^53-1]
pub open spec fn safe_min() -> int { -9007199254740991 }
pub open spec fn safe_max() -> int { 9007199254740991 }

impl SafeLong {
    pub closed spec fn view(&self) -> int { self.0 as int }
    // data-structure invariant of C15
    pub open spec fn wf(&self) -> bool { safe_min() <= self@ <= safe_max() }

//@@ fn SafeLong::min_value ret=r vfn=SafeLong::min_value
//@@ spec
        ensures r@ == safe_min(), r.wf()
//@@ pre
        proof { assert((1i64 << 53) == 9007199254740992i64) by (bit_vector); }
//@@ end

//@@ fn SafeLong::max_value ret=r vfn=SafeLong::max_value
//@@ spec
        ensures r@ == safe_max(), r.wf()
//@@ pre
        proof { assert((1i64 << 53) == 9007199254740992i64) by (bit_vector); }
//@@ end

//@@ fn SafeLong::new ret=r vfn=SafeLong::new
//@@ spec
        ensures
            r.is_ok() <==> (safe_min() <= value <= safe_max()),
            r matches Ok(s) ==> s@ == value && s.wf(),
//@@ end
}

impl std::ops::Deref for SafeLong {
    type Target = i64;

//@@ fn Deref for SafeLong::deref ret=r vfn=SafeLong::deref
//@@ spec
        ensures *r == self@
//@@ end
}

} // verus!
fn main() {}
