// Kani harness module for C05, appended to a scratch copy of conjure-serde/src/de/delegating_deserializer.rs
#[cfg(kani)]
mod verif_c05 {
    use super::*;
    use crate::de::verif_c01::*;

    /// a custom deserializer that overrides nothing: every default method of Deserializer2 must forward
    struct Nothing;
    impl<'de, D: Deserializer<'de>> Deserializer2<'de, D> for Nothing {}

    macro_rules! forwards {
        ($name:ident, $method:ident, $id:ident) => {
            #[kani::proof]
            fn $name() {
                script(Reply::Unit, Reply::Natural);
                assert!(DelegatingDeserializer::new(Nothing, Src(0)).$method(UV).is_ok());
                assert!(n() == 2 && at(0) == Ev::M($id, 0, 0) && at(1) == Ev::VUnit);
                kani::cover!(true);
            }
        };
    }
    forwards!(dd_any, deserialize_any, ANY);
    forwards!(dd_bool, deserialize_bool, BOOL);
    forwards!(dd_i8, deserialize_i8, I8);
    forwards!(dd_i16, deserialize_i16, I16);
    forwards!(dd_i32, deserialize_i32, I32);
    forwards!(dd_i64, deserialize_i64, I64);
    forwards!(dd_i128, deserialize_i128, I128);
    forwards!(dd_u8, deserialize_u8, U8);
    forwards!(dd_u16, deserialize_u16, U16);
    forwards!(dd_u32, deserialize_u32, U32);
    forwards!(dd_u64, deserialize_u64, U64);
    forwards!(dd_u128, deserialize_u128, U128);
    forwards!(dd_f32, deserialize_f32, F32);
    forwards!(dd_f64, deserialize_f64, F64);
    forwards!(dd_char, deserialize_char, CHAR);
    forwards!(dd_str, deserialize_str, STR);
    forwards!(dd_string, deserialize_string, STRING);
    forwards!(dd_bytes, deserialize_bytes, BYTES);
    forwards!(dd_byte_buf, deserialize_byte_buf, BYTE_BUF);
    forwards!(dd_option, deserialize_option, OPTION);
    forwards!(dd_unit, deserialize_unit, UNIT);
    forwards!(dd_seq, deserialize_seq, SEQ);
    forwards!(dd_map, deserialize_map, MAP);
    forwards!(dd_identifier, deserialize_identifier, IDENTIFIER);
    forwards!(dd_ignored_any, deserialize_ignored_any, IGNORED_ANY);

    static F3: [&str; 3] = ["a", "b", "c"];

    #[kani::proof]
    fn dd_named_methods() {
        let len: usize = kani::any();
        script(Reply::Unit, Reply::Natural);
        assert!(DelegatingDeserializer::new(Nothing, Src(0)).deserialize_unit_struct("Nm", UV).is_ok());
        assert!(n() == 2 && at(0) == Ev::M(UNIT_STRUCT, 2, 0));
        script(Reply::Unit, Reply::Natural);
        assert!(DelegatingDeserializer::new(Nothing, Src(0)).deserialize_newtype_struct("Nm", UV).is_ok());
        assert!(n() == 2 && at(0) == Ev::M(NEWTYPE_STRUCT, 2, 0));
        script(Reply::Unit, Reply::Natural);
        assert!(DelegatingDeserializer::new(Nothing, Src(0)).deserialize_tuple(len, UV).is_ok());
        assert!(n() == 2 && at(0) == Ev::M(TUPLE, len, 0));
        script(Reply::Unit, Reply::Natural);
        assert!(DelegatingDeserializer::new(Nothing, Src(0)).deserialize_tuple_struct("Nm", len, UV).is_ok());
        assert!(n() == 2 && at(0) == Ev::M(TUPLE_STRUCT, 2, len));
        script(Reply::Unit, Reply::Natural);
        assert!(DelegatingDeserializer::new(Nothing, Src(0)).deserialize_struct("Nm", &F3, UV).is_ok());
        assert!(n() == 2 && at(0) == Ev::M(STRUCT, 2, 3));
        script(Reply::Unit, Reply::Natural);
        assert!(DelegatingDeserializer::new(Nothing, Src(0)).deserialize_enum("Nm", &F3, UV).is_ok());
        assert!(n() == 2 && at(0) == Ev::M(ENUM, 2, 3));
        let h: bool = kani::any();
        unsafe { HUMAN = h };
        assert!(DelegatingDeserializer::new(Nothing, Src(0)).is_human_readable() == h);
        kani::cover!(true);
    }
}
