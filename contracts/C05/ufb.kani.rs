// Kani harness module for C05, appended to a scratch copy of conjure-serde/src/de/unknown_fields_behavior.rs.
// Uses the scripted source / logging visitor / ghost log of crate::de::verif_c01 (contracts/C01/de.kani.rs).
#[cfg(kani)]
mod verif_c05 {
    use super::*;
    use crate::de::verif_c01::{
        at, log, n, reset, script, Ev, Plain_, Reply, Src, E, KB, UV, VB, BOOL, BYTES, BYTE_BUF, F32, F64, STRUCT,
    };
    use serde::de::{self, Deserialize, IgnoredAny};
    use std::fmt;

    // type-level wiring: keys of a strict object are strict too, over the inner key behaviour
    #[allow(dead_code)]
    fn wiring() {
        let _: PhantomData<<UnknownFieldsBehavior<VB> as Behavior>::KeyBehavior> = PhantomData::<UnknownFieldsBehavior<KB>>;
    }

    // ---- the five scalar hooks defer to the inner behaviour ----------------------------------------------------
    macro_rules! passthrough {
        ($name:ident, $method:ident, $id:ident) => {
            #[kani::proof]
            fn $name() {
                script(Reply::Unit, Reply::Natural);
                assert!(<UnknownFieldsBehavior<VB> as Behavior>::$method(Src(0), UV).is_ok());
                assert!(n() == 3 && at(0) == Ev::Hook($id) && at(1) == Ev::M($id, 0, 0) && at(2) == Ev::VUnit);
                kani::cover!(true);
            }
        };
    }
    passthrough!(pass_bool, deserialize_bool, BOOL);
    passthrough!(pass_f32, deserialize_f32, F32);
    passthrough!(pass_f64, deserialize_f64, F64);
    passthrough!(pass_bytes, deserialize_bytes, BYTES);
    passthrough!(pass_byte_buf, deserialize_byte_buf, BYTE_BUF);

    // ---- a scripted object { <k0>: bool, <k1>: bool } delivered through any of the three string forms --------------
    static KEYS: [&str; 3] = ["a", "zq", "b"];

    #[derive(Clone, Copy)]
    struct KeyDe(usize, u8);
    impl<'de> Deserializer<'de> for KeyDe {
        type Error = E;
        fn deserialize_any<V: Visitor<'de>>(self, v: V) -> Result<V::Value, E> {
            match self.1 {
                0 => v.visit_str(KEYS[self.0]),
                1 => v.visit_borrowed_str(KEYS[self.0]),
                _ => v.visit_string(String::from(KEYS[self.0])),
            }
        }
        serde::forward_to_deserialize_any! { bool i8 i16 i32 i64 i128 u8 u16 u32 u64 u128 f32 f64 char str string bytes byte_buf option unit unit_struct newtype_struct seq tuple tuple_struct map struct enum identifier ignored_any }
    }
    struct BoolDe(bool);
    impl<'de> Deserializer<'de> for BoolDe {
        type Error = E;
        fn deserialize_any<V: Visitor<'de>>(self, v: V) -> Result<V::Value, E> {
            v.visit_bool(self.0)
        }
        serde::forward_to_deserialize_any! { bool i8 i16 i32 i64 i128 u8 u16 u32 u64 u128 f32 f64 char str string bytes byte_buf option unit unit_struct newtype_struct seq tuple tuple_struct map struct enum identifier ignored_any }
    }
    struct ScriptMap {
        keys: [usize; 2],
        form: [u8; 2],
        vals: [bool; 2],
        i: usize,
    }
    impl<'de> MapAccess<'de> for ScriptMap {
        type Error = E;
        fn next_key_seed<K: DeserializeSeed<'de>>(&mut self, seed: K) -> Result<Option<K::Value>, E> {
            if self.i >= 2 {
                return Ok(None);
            }
            seed.deserialize(KeyDe(self.keys[self.i], self.form[self.i])).map(Some)
        }
        fn next_value_seed<S: DeserializeSeed<'de>>(&mut self, seed: S) -> Result<S::Value, E> {
            let k = self.i;
            self.i += 1;
            seed.deserialize(BoolDe(self.vals[k]))
        }
        fn size_hint(&self) -> Option<usize> {
            Some(2 - self.i)
        }
    }
    struct Script {
        keys: [usize; 2],
        form: [u8; 2],
        vals: [bool; 2],
    }
    impl<'de> Deserializer<'de> for Script {
        type Error = E;
        fn deserialize_any<V: Visitor<'de>>(self, v: V) -> Result<V::Value, E> {
            v.visit_map(ScriptMap { keys: self.keys, form: self.form, vals: self.vals, i: 0 })
        }
        serde::forward_to_deserialize_any! { bool i8 i16 i32 i64 i128 u8 u16 u32 u64 u128 f32 f64 char str string bytes byte_buf option unit unit_struct newtype_struct seq tuple tuple_struct map struct enum identifier ignored_any }
    }

    // what a derived Deserialize for `struct S { a: bool }` does: identifier for the key, IgnoredAny for an
    // undeclared field
    enum Field {
        A,
        Ignore,
    }
    impl<'de> Deserialize<'de> for Field {
        fn deserialize<D: Deserializer<'de>>(d: D) -> Result<Field, D::Error> {
            struct FV;
            impl<'de> Visitor<'de> for FV {
                type Value = Field;
                fn expecting(&self, _: &mut fmt::Formatter) -> fmt::Result {
                    Ok(())
                }
                fn visit_str<Er: de::Error>(self, v: &str) -> Result<Field, Er> {
                    if v == "a" {
                        Ok(Field::A)
                    } else {
                        Ok(Field::Ignore)
                    }
                }
            }
            d.deserialize_identifier(FV)
        }
    }
    struct SV;
    impl<'de> Visitor<'de> for SV {
        type Value = Option<bool>;
        fn expecting(&self, _: &mut fmt::Formatter) -> fmt::Result {
            Ok(())
        }
        fn visit_map<A: MapAccess<'de>>(self, mut map: A) -> Result<Option<bool>, A::Error> {
            let mut a = None;
            let mut k = 0;
            while k < 3 {
                match map.next_key::<Field>()? {
                    Some(Field::A) => {
                        a = Some(map.next_value::<bool>()?);
                    }
                    Some(Field::Ignore) => {
                        map.next_value::<IgnoredAny>()?;
                    }
                    None => break,
                }
                k += 1;
            }
            Ok(a)
        }
    }
    static DECLARED: [&str; 1] = ["a"];

    fn unknown_logged(name: &[u8]) -> bool {
        n() == 1 && at(0) == Ev::UnknownField(name.len(), name[0], if name.len() > 1 { name[1] } else { 0 }, 1)
    }

    // server behaviour: unknown field rejected by name, at either position, through every string form;
    // declared fields accepted with their values; client (default) behaviour ignores the field.
    // One harness per document shape (the key set is concrete, the string form and the field values are
    // symbolic): with a symbolic choice between keys of different lengths CBMC reports a counterexample that
    // does not replay natively (imprecise copy of a symbolically sized string).
    macro_rules! derive_shape {
        ($name:ident, $keys:expr, $strict:expr, $lenient:expr) => {
            #[kani::proof]
            #[kani::unwind(6)]
            fn $name() {
                let vals: [bool; 2] = kani::any();
                // each key is delivered in its own string form (serde_json hands out a borrowed str for a plain key
                // and an owned one for a key with an escape sequence, within the same object)
                let form: [u8; 2] = kani::any();
                kani::assume(form[0] < 3 && form[1] < 3);
                reset();
                let r = <UnknownFieldsBehavior<Plain_> as Behavior>::deserialize_struct(Script { keys: $keys, form, vals }, "S", &DECLARED, SV);
                let strict: fn(Result<Option<bool>, E>, [bool; 2]) -> bool = $strict;
                assert!(strict(r, vals));
                // the lenient behaviour (the client's) yields exactly the value of the document without the extra field
                reset();
                let r2 = <Plain_ as Behavior>::deserialize_struct(Script { keys: $keys, form, vals }, "S", &DECLARED, SV);
                assert!(n() == 0);
                let lenient: fn(Result<Option<bool>, E>, [bool; 2]) -> bool = $lenient;
                assert!(lenient(r2, vals));
                kani::cover!(form[0] == 1 && form[1] == 2);
                kani::cover!(form[0] == 0 && form[1] == 1);
            }
        };
    }
    // {a, a}: both declared
    derive_shape!(derive_shape_declared_only, [0, 0], |r, v| n() == 0 && matches!(r, Ok(x) if x == Some(v[1])), |r, v| matches!(r, Ok(x) if x == Some(v[1])));
    // {a, zq}: undeclared field last
    derive_shape!(derive_shape_unknown_last, [0, 1], |r, _| r.is_err() && unknown_logged(b"zq"), |r, v| matches!(r, Ok(x) if x == Some(v[0])));
    // {zq, a}: undeclared field first
    derive_shape!(derive_shape_unknown_first, [1, 0], |r, _| r.is_err() && unknown_logged(b"zq"), |r, v| matches!(r, Ok(x) if x == Some(v[1])));
    // {b, zq}: two undeclared fields, the first one is reported
    derive_shape!(derive_shape_two_unknown, [2, 1], |r, _| r.is_err() && unknown_logged(b"b"), |r, _| matches!(r, Ok(None)));

    // an object type that declares no field at all (serde-derive passes an empty `fields` slice): every key is undeclared
    static NONE_DECLARED: [&str; 0] = [];
    #[kani::proof]
    #[kani::unwind(6)]
    fn derive_shape_no_declared_fields() {
        let vals: [bool; 2] = kani::any();
        let form: [u8; 2] = kani::any();
        kani::assume(form[0] < 3 && form[1] < 3);
        reset();
        let r = <UnknownFieldsBehavior<Plain_> as Behavior>::deserialize_struct(Script { keys: [2, 1], form, vals }, "S", &NONE_DECLARED, SV);
        assert!(r.is_err());
        assert!(n() == 1 && at(0) == Ev::UnknownField(1, b'b', 0, 0));
        reset();
        let r2 = <Plain_ as Behavior>::deserialize_struct(Script { keys: [2, 1], form, vals }, "S", &NONE_DECLARED, SV);
        assert!(n() == 0 && matches!(r2, Ok(None)));
        kani::cover!(form[0] == 1 && form[1] == 2);
    }

    // the struct hook routes through the inner behaviour's deserialize_struct with the same name and fields
    #[kani::proof]
    fn struct_hook_goes_through_inner_behavior() {
        script(Reply::Unit, Reply::Natural);
        static F3: [&str; 3] = ["a", "b", "c"];
        assert!(<UnknownFieldsBehavior<VB> as Behavior>::deserialize_struct(Src(0), "Nm", &F3, UV).is_ok());
        assert!(n() == 3 && at(0) == Ev::HookStruct(2, 3) && at(1) == Ev::M(STRUCT, 2, 3) && at(2) == Ev::VUnit);
        kani::cover!(true);
    }

//@@INTERNALS-BEGIN
    // ---- ValueDeserializer: only deserialize_ignored_any is intercepted ---------------------------------------------
    #[kani::proof]
    #[kani::unwind(6)]
    fn value_deserializer_rejects_ignored_any_with_recorded_key() {
        let key: Option<Cow<'static, str>> = if kani::any() { Some(Cow::Borrowed("zq")) } else { None };
        reset();
        let d = DelegatingDeserializer::new(ValueDeserializer { fields: &DECLARED, key: &key }, Src(0));
        let r: Result<(), E> = d.deserialize_ignored_any(UV);
        assert!(r.is_err());
        if key.is_some() {
            assert!(unknown_logged(b"zq"));
        } else {
            // no key was recorded: some placeholder name is used (its text is not part of the property), the document is still rejected
            assert!(n() == 1 && matches!(at(0), Ev::UnknownField(_, _, _, 1)));
        }
        std::mem::forget(key);
        kani::cover!(true);
    }

    macro_rules! value_deserializer_forwards {
        ($name:ident, $method:ident, $id:expr) => {
            #[kani::proof]
            fn $name() {
                let key: Option<Cow<'static, str>> = None;
                script(Reply::Unit, Reply::Natural);
                let d = DelegatingDeserializer::new(ValueDeserializer { fields: &DECLARED, key: &key }, Src(0));
                assert!(d.$method(UV).is_ok());
                assert!(n() == 2 && at(0) == Ev::M($id, 0, 0) && at(1) == Ev::VUnit);
                kani::cover!(true);
            }
        };
    }
    value_deserializer_forwards!(vd_any, deserialize_any, crate::de::verif_c01::ANY);
    value_deserializer_forwards!(vd_bool, deserialize_bool, BOOL);
    value_deserializer_forwards!(vd_i32, deserialize_i32, crate::de::verif_c01::I32);
    value_deserializer_forwards!(vd_i64, deserialize_i64, crate::de::verif_c01::I64);
    value_deserializer_forwards!(vd_f64, deserialize_f64, F64);
    value_deserializer_forwards!(vd_str, deserialize_str, crate::de::verif_c01::STR);
    value_deserializer_forwards!(vd_string, deserialize_string, crate::de::verif_c01::STRING);
    value_deserializer_forwards!(vd_bytes, deserialize_bytes, BYTES);
    value_deserializer_forwards!(vd_option, deserialize_option, crate::de::verif_c01::OPTION);
    value_deserializer_forwards!(vd_seq, deserialize_seq, crate::de::verif_c01::SEQ);
    value_deserializer_forwards!(vd_map, deserialize_map, crate::de::verif_c01::MAP);
    value_deserializer_forwards!(vd_identifier, deserialize_identifier, crate::de::verif_c01::IDENTIFIER);

    #[kani::proof]
    fn value_deserializer_forwards_struct_and_enum() {
        // nested objects and unions below a field are requested from the underlying deserializer unchanged
        let key: Option<Cow<'static, str>> = None;
        static F3: [&str; 3] = ["a", "b", "c"];
        script(Reply::Unit, Reply::Natural);
        let d = DelegatingDeserializer::new(ValueDeserializer { fields: &DECLARED, key: &key }, Src(0));
        assert!(d.deserialize_struct("Nm", &F3, UV).is_ok());
        assert!(n() == 2 && at(0) == Ev::M(STRUCT, 2, 3));
        script(Reply::Unit, Reply::Natural);
        let d = DelegatingDeserializer::new(ValueDeserializer { fields: &DECLARED, key: &key }, Src(0));
        assert!(d.deserialize_enum("Nm", &F3, UV).is_ok());
        assert!(n() == 2 && at(0) == Ev::M(crate::de::verif_c01::ENUM, 2, 3));
        script(Reply::Unit, Reply::Natural);
        let d = DelegatingDeserializer::new(ValueDeserializer { fields: &DECLARED, key: &key }, Src(0));
        assert!(d.deserialize_newtype_struct("Nm", UV).is_ok());
        assert!(n() == 2 && at(0) == Ev::M(crate::de::verif_c01::NEWTYPE_STRUCT, 2, 0));
        kani::cover!(true);
    }

    // ---- KeyWrapper / KeyVisitor: the key is recorded and still delivered to the field identifier visitor ------------
    #[kani::proof]
    #[kani::unwind(6)]
    fn key_is_recorded_and_forwarded() {
        let form: u8 = kani::any();
        kani::assume(form < 3);
        let mut key: Option<Cow<'static, str>> = None;
        reset();
        let d = WrappingDeserializer::new(KeyWrapper { key: &mut key }, KeyDe(1, form));
        assert!(d.deserialize_identifier(UV).is_ok());
        // delivered in the same string form ...
        assert!(n() == 1);
        match form {
            0 => assert!(at(0) == Ev::VStr(2, b'z')),
            1 => assert!(at(0) == Ev::VBorrowedStr(2, b'z')),
            _ => assert!(at(0) == Ev::VString(2, b'z')),
        }
        // ... and recorded verbatim
        match &key {
            Some(k) => assert!(k.as_bytes().len() == 2 && k.as_bytes()[0] == b'z' && k.as_bytes()[1] == b'q'),
            None => assert!(false),
        }
        std::mem::forget(key);
        kani::cover!(form == 2);
    }

    #[kani::proof]
    #[kani::unwind(6)]
    fn stale_key_is_cleared_before_the_next_key() {
        // next_key_seed resets the recorded key first, so an entry whose key is not a string can never be
        // reported under the previous field's name
        let mut sma = StructMapAccess {
            map: ScriptMap { keys: [0, 0], form: [0, 0], vals: [true, true], i: 2 },
            fields: &DECLARED,
            key: Some(Cow::Borrowed("old")),
        };
        let r: Result<Option<Field>, E> = sma.next_key_seed(std::marker::PhantomData::<Field>);
        assert!(matches!(r, Ok(None)));
        assert!(sma.key.is_none());
        std::mem::forget(sma);
        kani::cover!(true);
    }

//@@INTERNALS-END
    #[allow(dead_code)]
    fn _u() {
        log(Ev::Nil);
    }
}
