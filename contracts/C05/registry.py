"""C05 — Servers reject and clients ignore unknown object fields at every nesting depth (wrapper obligations)."""
import os, re
from vf import vx, find_item, text, Undecided

UFB = "conjure-serde/src/de/unknown_fields_behavior.rs"
DD = "conjure-serde/src/de/delegating_deserializer.rs"
WD = "conjure-serde/src/de/wrapping_deserializer.rs"
DE = "conjure-serde/src/de/mod.rs"
_HERE = os.path.dirname(os.path.abspath(__file__))
_C01 = os.path.join(os.path.dirname(_HERE), "C01")

TRUSTED = [
    "rustc, Kani 0.68 + CBMC 6.11",
    "serde derive / generated Deserialize impls call deserialize_struct for objects, deserialize_identifier for field names and deserialize_ignored_any (IgnoredAny) for undeclared fields",
    "serde_json / serde_smile parsers deliver object keys as string events",
]
ASSUMPTIONS = [
    "'at every nesting depth' = the interception obligations of this property + the re-wrapping obligations C01.K.de.* (Override re-wraps every nested access with the same behaviour; run here again as part of the unit) + parametricity of the generic wrappers; the structural induction is not mechanised",
    "the derive-shaped visitor in the harness (field identifier via deserialize_identifier, IgnoredAny for undeclared fields) stands for derived and Conjure-generated Deserialize impls",
    "cfg(kani) harness modules appended to scratch copies; executable text unchanged",
]
NOT_DECIDED = [
    "JSON / Smile parsers; that generated code has the derive shape (C02 territory)",
    "unknown fields whose value a visitor requests through a method other than deserialize_ignored_any (not what serde derive does)",
]

def H(name, ob, file, fns, desc, kind="complete", bound=None, tier="quick", timeout=300):
    mod = {UFB: "de::unknown_fields_behavior::verif_c05", DD: "de::delegating_deserializer::verif_c05", WD: "de::wrapping_deserializer::verif_c05", DE: "de::verif_c01"}[file]
    return dict(name=mod + "::" + name, ob=ob, file=file, functions=[(f if "/" in f else file + "::" + f) for f in fns], desc=desc, kind=kind, bound=bound, tier=tier, timeout=timeout)

B = "Behavior for UnknownFieldsBehavior<B>::"
_h = []
for m in ["bool", "f32", "f64", "bytes", "byte_buf"]:
    _h.append(H("pass_" + m, "C05.K.ufb.passthrough." + m, UFB, [B + "deserialize_" + m], "deserialize_%s defers to the inner behaviour's hook" % m))
_h += [
    H("derive_shape_declared_only", "C05.K.ufb.derive_shape.declared_only", UFB,
      [B + "deserialize_struct", "Visitor2<'de,V> for StructVisitor::visit_map", "MapAccess<'de> for StructMapAccess<'de,T>::next_key_seed", "MapAccess<'de> for StructMapAccess<'de,T>::next_value_seed",
       "DeserializeSeed<'de> for KeyDeserializeSeed<'de,'_,T>::deserialize", "WrapVisitor<'de> for KeyWrapper<'de,'_>::wrap_visitor", "Visitor2<'de,V> for KeyVisitor<'de,'_>::visit_str",
       "Visitor2<'de,V> for KeyVisitor<'de,'_>::visit_borrowed_str", "Visitor2<'de,V> for KeyVisitor<'de,'_>::visit_string", "DeserializeSeed<'de> for ValueDeserializeSeed<'de,'_,T>::deserialize",
       "Deserializer2<'de,D> for ValueDeserializer<'de,'_>::deserialize_ignored_any"],
      "scripted object through the real deserialize_struct into a derive-shaped visitor, all three string forms, all field values — {a, a}: both entries declared: accepted with the last value, nothing reported"),
    H("derive_shape_unknown_last", "C05.K.ufb.derive_shape.unknown_last", UFB,
      [B + "deserialize_struct", "Visitor2<'de,V> for StructVisitor::visit_map", "MapAccess<'de> for StructMapAccess<'de,T>::next_key_seed", "MapAccess<'de> for StructMapAccess<'de,T>::next_value_seed",
       "DeserializeSeed<'de> for KeyDeserializeSeed<'de,'_,T>::deserialize", "WrapVisitor<'de> for KeyWrapper<'de,'_>::wrap_visitor", "Visitor2<'de,V> for KeyVisitor<'de,'_>::visit_str",
       "Visitor2<'de,V> for KeyVisitor<'de,'_>::visit_borrowed_str", "Visitor2<'de,V> for KeyVisitor<'de,'_>::visit_string", "DeserializeSeed<'de> for ValueDeserializeSeed<'de,'_,T>::deserialize",
       "Deserializer2<'de,D> for ValueDeserializer<'de,'_>::deserialize_ignored_any"],
      "scripted object through the real deserialize_struct into a derive-shaped visitor, all three string forms, all field values — {a, zq}: the undeclared field (last) is rejected by the server behaviour with unknown_field(\"zq\", declared); the client behaviour returns the value without it"),
    H("derive_shape_unknown_first", "C05.K.ufb.derive_shape.unknown_first", UFB,
      [B + "deserialize_struct", "Visitor2<'de,V> for StructVisitor::visit_map", "MapAccess<'de> for StructMapAccess<'de,T>::next_key_seed", "MapAccess<'de> for StructMapAccess<'de,T>::next_value_seed",
       "DeserializeSeed<'de> for KeyDeserializeSeed<'de,'_,T>::deserialize", "WrapVisitor<'de> for KeyWrapper<'de,'_>::wrap_visitor", "Visitor2<'de,V> for KeyVisitor<'de,'_>::visit_str",
       "Visitor2<'de,V> for KeyVisitor<'de,'_>::visit_borrowed_str", "Visitor2<'de,V> for KeyVisitor<'de,'_>::visit_string", "DeserializeSeed<'de> for ValueDeserializeSeed<'de,'_,T>::deserialize",
       "Deserializer2<'de,D> for ValueDeserializer<'de,'_>::deserialize_ignored_any"],
      "scripted object through the real deserialize_struct into a derive-shaped visitor, all three string forms, all field values — {zq, a}: the undeclared field (first) is rejected by name; client ignores it"),
    H("derive_shape_two_unknown", "C05.K.ufb.derive_shape.two_unknown", UFB,
      [B + "deserialize_struct", "Visitor2<'de,V> for StructVisitor::visit_map", "MapAccess<'de> for StructMapAccess<'de,T>::next_key_seed", "MapAccess<'de> for StructMapAccess<'de,T>::next_value_seed",
       "DeserializeSeed<'de> for KeyDeserializeSeed<'de,'_,T>::deserialize", "WrapVisitor<'de> for KeyWrapper<'de,'_>::wrap_visitor", "Visitor2<'de,V> for KeyVisitor<'de,'_>::visit_str",
       "Visitor2<'de,V> for KeyVisitor<'de,'_>::visit_borrowed_str", "Visitor2<'de,V> for KeyVisitor<'de,'_>::visit_string", "DeserializeSeed<'de> for ValueDeserializeSeed<'de,'_,T>::deserialize",
       "Deserializer2<'de,D> for ValueDeserializer<'de,'_>::deserialize_ignored_any"],
      "scripted object through the real deserialize_struct into a derive-shaped visitor, all three string forms, all field values — {b, zq}: the first undeclared field is the one reported; client returns the empty object"),
    H("derive_shape_no_declared_fields", "C05.K.ufb.derive_shape.no_declared_fields", UFB, [B + "deserialize_struct"],
      "an object type with no declared field ({b, zq} against fields = []): the server behaviour rejects the first key by name, the client behaviour returns the empty object"),
    H("struct_hook_goes_through_inner_behavior", "C05.K.ufb.struct_hook_inner", UFB, [B + "deserialize_struct"], "the struct hook calls the inner behaviour's deserialize_struct with the same name and fields"),
    H("value_deserializer_rejects_ignored_any_with_recorded_key", "C05.K.ufb.ignored_any_rejected", UFB, ["Deserializer2<'de,D> for ValueDeserializer<'de,'_>::deserialize_ignored_any"],
      "a value requested through deserialize_ignored_any yields unknown_field(recorded key, fields); with no recorded key the placeholder is used and the document is still rejected"),
    H("value_deserializer_forwards_struct_and_enum", "C05.K.ufb.value_forwards_compound", UFB, ["Deserializer2<'de,D> for ValueDeserializer<'de,'_>::deserialize_ignored_any", DD + "::trait Deserializer2::deserialize_struct"],
      "nested struct / enum / newtype requests below a field reach the underlying deserializer unchanged"),
    H("key_is_recorded_and_forwarded", "C05.K.ufb.key_recorded", UFB, ["Visitor2<'de,V> for KeyVisitor<'de,'_>::visit_str", "Visitor2<'de,V> for KeyVisitor<'de,'_>::visit_borrowed_str", "Visitor2<'de,V> for KeyVisitor<'de,'_>::visit_string", "WrapVisitor<'de> for KeyWrapper<'de,'_>::wrap_visitor"],
      "the key is recorded verbatim for all three string visit forms and still delivered to the field-identifier visitor in the same form"),
    H("stale_key_is_cleared_before_the_next_key", "C05.K.ufb.key_cleared", UFB, ["MapAccess<'de> for StructMapAccess<'de,T>::next_key_seed"], "next_key_seed clears the previously recorded key"),
]
for m in ["any", "bool", "i32", "i64", "f64", "str", "string", "bytes", "option", "seq", "map", "identifier"]:
    _h.append(H("vd_" + m, "C05.K.ufb.value_forwards." + m, UFB, ["Deserializer2<'de,D> for ValueDeserializer<'de,'_>::deserialize_ignored_any", DD + "::trait Deserializer2::macro delegate"],
                "a declared field's value requested through deserialize_%s reaches the underlying deserializer unchanged" % m))
ALL = ["any", "bool", "i8", "i16", "i32", "i64", "i128", "u8", "u16", "u32", "u64", "u128", "f32", "f64", "char", "str", "string", "bytes", "byte_buf", "option", "unit", "seq", "map", "identifier", "ignored_any"]
for m in ALL:
    _h.append(H("dd_" + m, "C05.K.dd.forward." + m, DD, ["trait Deserializer2::macro delegate", "Deserializer<'de> for DelegatingDeserializer<T,D>::macro delegate_impl"], "DelegatingDeserializer forwards deserialize_%s unless overridden" % m))
_h.append(H("dd_named_methods", "C05.K.dd.forward.named", DD, ["trait Deserializer2::deserialize_unit_struct", "trait Deserializer2::deserialize_newtype_struct", "trait Deserializer2::deserialize_tuple", "trait Deserializer2::deserialize_tuple_struct", "trait Deserializer2::deserialize_struct", "trait Deserializer2::deserialize_enum", "trait Deserializer2::is_human_readable"],
              "named methods and is_human_readable forwarded with their arguments"))
for m in ALL:
    _h.append(H("wd_" + m, "C05.K.wd.forward." + m, WD, ["Deserializer<'de> for WrappingDeserializer<W,D>::macro delegate"], "WrappingDeserializer hands the visitor to the wrapper once; delegating reaches deserialize_%s" % m))
_h.append(H("wd_named_methods", "C05.K.wd.forward.named", WD, ["Deserializer<'de> for WrappingDeserializer<W,D>::deserialize_unit_struct", "Deserializer<'de> for WrappingDeserializer<W,D>::deserialize_newtype_struct", "Deserializer<'de> for WrappingDeserializer<W,D>::deserialize_tuple",
              "Deserializer<'de> for WrappingDeserializer<W,D>::deserialize_tuple_struct", "Deserializer<'de> for WrappingDeserializer<W,D>::deserialize_struct", "Deserializer<'de> for WrappingDeserializer<W,D>::deserialize_enum", "Deserializer<'de> for WrappingDeserializer<W,D>::is_human_readable"],
              "named methods and is_human_readable: wrapper runs once, arguments forwarded"))
# the re-wrapping obligations shared with C01 that carry the behaviour below every container
for (nm, ob, d) in [
    ("d_struct_goes_through_behavior", "C05.K.de.frame.deserialize_struct", "Override::deserialize_struct is routed through B::deserialize_struct"),
    ("v_some_and_newtype_rewrap", "C05.K.de.visit.some_newtype", "optionals / aliases: nested deserializer re-wrapped with B"),
    ("v_seq_rewraps", "C05.K.de.visit.seq", "lists / sets: element access re-wrapped with B"),
    ("v_map_rewraps_keys_with_key_behavior", "C05.K.de.visit.map", "maps / objects: keys get B::KeyBehavior, values B"),
    ("v_enum_rewraps", "C05.K.de.visit.enum", "unions: variant access re-wrapped with B"),
    ("seq_access_frame", "C05.K.de.access.seq", "SeqAccess re-wraps each element seed"),
    ("map_access_frame", "C05.K.de.access.map", "MapAccess re-wraps key seeds with KeyBehavior and value seeds with B"),
    ("enum_and_variant_access_frame", "C05.K.de.access.enum_variant", "EnumAccess / VariantAccess re-wrap every payload form"),
    ("seed_wraps_the_deserializer", "C05.K.de.seed", "DeserializeSeed for Override wraps the deserializer"),
    ("default_behavior_is_identity", "C05.K.de.default_behavior", "the default behaviour does not intercept structs (lenient client)"),
    # every request that can carry a nested object must hand the inner deserializer a re-wrapped visitor, below the entry
    # point and at the entry point itself, or the behaviour is lost for everything beneath it
    ("d_any", "C05.K.de.frame.deserialize_any", "deserialize_any reaches the inner method with the visitor wrapped in B"),
    ("d_option", "C05.K.de.frame.deserialize_option", "optional values: visitor wrapped in B"),
    ("d_seq", "C05.K.de.frame.deserialize_seq", "lists / sets: visitor wrapped in B"),
    ("d_map", "C05.K.de.frame.deserialize_map", "maps: visitor wrapped in B"),
    ("d_named_methods", "C05.K.de.frame.named_methods", "newtype_struct / tuple / tuple_struct / enum requests wrap the visitor"),
    ("entry_any", "C05.K.entry.deserialize_any", "impl_deserialize_body!: deserialize_any goes through Override<_, $behavior>"),
    ("entry_option", "C05.K.entry.deserialize_option", "impl_deserialize_body!: deserialize_option goes through Override<_, $behavior>"),
    ("entry_seq", "C05.K.entry.deserialize_seq", "impl_deserialize_body!: deserialize_seq goes through Override<_, $behavior>"),
    ("entry_map", "C05.K.entry.deserialize_map", "impl_deserialize_body!: deserialize_map goes through Override<_, $behavior>"),
    ("entry_named_methods", "C05.K.entry.named_methods", "impl_deserialize_body!: newtype_struct / tuple / tuple_struct / enum go through Override; struct through $behavior's struct hook"),
]:
    _h.append(H(nm, ob, DE, ["Visitor<'de> for Override<V,B>::visit_map"] if "map" in nm else ["Deserializer<'de> for Override<T,B>::deserialize_struct"] if "struct" in nm else [], d + " (same harness as the C01 obligation of that name)"))

def _read(path):
    return lambda ws: open(path).read()

def _ufb(api_only):
    def f(ws):
        s = open(os.path.join(_HERE, "ufb.kani.rs")).read()
        if api_only:
            a, b = s.index("//@@INTERNALS-BEGIN"), s.index("//@@INTERNALS-END")
            s = s[:a] + s[b + len("//@@INTERNALS-END"):]
        return s
    return f

_INTERNAL = lambda h: any(k in h["name"] for k in ("::vd_", "value_deserializer_", "key_is_recorded", "stale_key_is_cleared"))
_DE = dict(file=DE, module_fn=_read(os.path.join(_C01, "de.kani.rs")))
KANI_UNITS = [
    # api: only the public Behavior / Deserializer traits are named, so a refactoring of the private helper types
    # (KeyVisitor, ValueDeserializer, StructMapAccess, ...) cannot make these obligations undecided
    dict(name="unknown_fields_api", crate="conjure-serde", modpath="",
         injections=[_DE, dict(file=UFB, module_fn=_ufb(True)), dict(file=DD, module_fn=_read(os.path.join(_HERE, "dd.kani.rs"))), dict(file=WD, module_fn=_read(os.path.join(_HERE, "wd.kani.rs")))],
         harnesses=[h for h in _h if not _INTERNAL(h)]),
    dict(name="unknown_fields_internals", crate="conjure-serde", modpath="",
         injections=[_DE, dict(file=UFB, module_fn=_ufb(False))],
         harnesses=[h for h in _h if _INTERNAL(h)]),
]

def scan_wiring(repo):
    """syntactic: the server deserializers instantiate impl_deserialize_body! with UnknownFieldsBehavior<ValueBehavior>, the client ones with ValueBehavior"""
    want = {
        "conjure-serde/src/json/de/server.rs": "UnknownFieldsBehavior<ValueBehavior>",
        "conjure-serde/src/smile/de/server.rs": "UnknownFieldsBehavior<ValueBehavior>",
        "conjure-serde/src/json/de/client.rs": "ValueBehavior",
        "conjure-serde/src/smile/de/client.rs": "ValueBehavior",
    }
    out = []
    for f, beh in want.items():
        doc = vx(os.path.join(repo, f))
        ms = [it for it in doc["items"] if it["kind"] == "impl_macro" and it["key"].endswith("::macro impl_deserialize_body")]
        if len(ms) != 1:
            raise Undecided("%s: expected exactly one impl_deserialize_body! invocation, found %d" % (f, len(ms)))
        t = re.sub(r"\s+", "", text(doc, ms[0]["start"], ms[0]["end"]))
        m = re.match(r"impl_deserialize_body!\((.*),(%s)\);?$" % re.escape(beh), t)
        if not m:
            decisive = beh.startswith("UnknownFieldsBehavior") and re.match(r"impl_deserialize_body!\((.*),ValueBehavior\);?$", t) is not None
            return False, "%s instantiates impl_deserialize_body! with %s, expected behaviour %s" % (f, t, beh), decisive
        out.append("%s: %s" % (f, beh))
        # the free entry functions ({server,client}_from_{reader,str,slice,mut_slice}) build this file's own deserializer
        own, other = ("ServerDeserializer", "ClientDeserializer") if "/server.rs" in f else ("ClientDeserializer", "ServerDeserializer")
        pre = "server_from_" if own == "ServerDeserializer" else "client_from_"
        fns = [it for it in doc["items"] if it["kind"] == "fn" and it.get("name", "").startswith(pre) and it["key"].startswith("fn ")]
        if not fns:
            raise Undecided("%s: no %s* entry functions found" % (f, pre))
        for it in fns:
            body = re.sub(r"\s+", "", text(doc, it["body_start"], it["body_end"]))
            if re.search(r"\b%s\b" % other, body):
                return False, "%s: %s constructs %s, expected %s" % (f, it["key"], other, own), True
            if not re.search(r"\b%s::from_\w+\(" % own, body):
                raise Undecided("%s: %s does not construct %s directly" % (f, it["key"], own))
        out.append("%s: %d entry functions build %s" % (f, len(fns), own))
    return True, "; ".join(out)

SCANS = [dict(name="C05.S.entry_wiring", fn=scan_wiring, desc="syntactic: server deserializers use UnknownFieldsBehavior<ValueBehavior>, client ones ValueBehavior")]

MUTANTS = [
    dict(name="empty_field_list_skips_the_check", file=UFB, **{"from": "        B::deserialize_struct(\n            de,\n            name,", "to": "        if fields.is_empty() {\n            return B::deserialize_struct(de, name, fields, visitor);\n        }\n        B::deserialize_struct(\n            de,\n            name,"},
         expect=["C05.K.ufb.derive_shape.no_declared_fields"]),
    dict(name="key_not_recorded_for_visit_str", file=UFB, **{"from": "        *self.key = Some(Cow::Owned(value.to_string()));\n        visitor.visit_str(value)", "to": "        visitor.visit_str(value)"},
         expect=["C05.K.ufb.derive_shape.unknown_last", "C05.K.ufb.derive_shape.unknown_first", "C05.K.ufb.key_recorded"]),
    dict(name="stale_key_not_cleared", file=UFB, **{"from": "        self.key = None;\n        self.map.next_key_seed", "to": "        self.map.next_key_seed"},
         expect=["C05.K.ufb.key_cleared"]),
    dict(name="ignored_any_forwarded_instead_of_rejected", file=UFB, **{"from": "        Err(Error::unknown_field(key, self.fields))", "to": "        let _ = key;\n        _deserializer.deserialize_ignored_any(_visitor)"},
         expect=["C05.K.ufb.derive_shape.unknown_last", "C05.K.ufb.ignored_any_rejected"]),
    dict(name="struct_visitor_passes_raw_map", file=UFB, **{"from": "        visitor.visit_map(StructMapAccess {\n            map,\n            fields: self.fields,\n            key: None,\n        })", "to": "        let _ = self.fields;\n        visitor.visit_map(map)"},
         expect=["C05.K.ufb.derive_shape.unknown_last", "C05.K.ufb.derive_shape.unknown_first"]),
    dict(name="override_struct_bypasses_behavior", file=DE, **{"from": "B::deserialize_struct(self.inner, name, fields, Override::<_, B>::new(visitor))", "to": "self.inner.deserialize_struct(name, fields, Override::<_, B>::new(visitor))"},
         expect=["C05.K.de.frame.deserialize_struct"]),
    dict(name="map_values_lose_behavior", file=DE, **{"from": "self.inner.next_value_seed(Override::<_, B>::new(seed))", "to": "self.inner.next_value_seed(seed)"},
         expect=["C05.K.de.access.map", "C05.K.de.visit.map"]),
    dict(name="smile_server_reader_builds_client_deserializer", file="conjure-serde/src/smile/de/server.rs", **{"from": "    let mut de = ServerDeserializer::from_reader(reader);", "to": "    let mut de = crate::smile::de::client::ClientDeserializer::from_reader(reader);"},
         expect=["C05.S.entry_wiring"]),
    dict(name="server_uses_client_behavior", file="conjure-serde/src/json/de/server.rs", **{"from": "        UnknownFieldsBehavior<ValueBehavior>\n    );", "to": "        ValueBehavior\n    );"},
         expect=["C05.S.entry_wiring"]),
]

BENIGN = [
    dict(name="ignored_any_key_lookup_rewritten", file=UFB, **{"from": "        let key = match self.key {\n            Some(key) => &**key,\n            None => \"<unknown>\",\n        };", "to": "        let key = self.key.as_deref().unwrap_or(\"<unknown>\");"}),
    dict(name="key_visitor_owned_without_to_string", file=UFB, **{"from": "        *self.key = Some(Cow::Owned(value.to_string()));\n        visitor.visit_string(value)", "to": "        *self.key = Some(Cow::Owned(value.clone()));\n        visitor.visit_string(value)"}),
]
