// Kani harness module for C05, appended to a scratch copy of conjure-serde/src/de/wrapping_deserializer.rs
#[cfg(kani)]
mod verif_c05 {
    use super::*;
    use crate::de::verif_c01::*;

    /// a wrapper that logs and delegates with the visitor it was given
    struct W;
    impl<'de> WrapVisitor<'de> for W {
        fn wrap_visitor<D: Delegate<'de>, V: Visitor<'de>>(self, delegate: D, visitor: V) -> Result<V::Value, D::Error> {
            log(Ev::Wrap);
            delegate.delegate(visitor)
        }
    }

    macro_rules! wraps {
        ($name:ident, $method:ident, $id:ident) => {
            #[kani::proof]
            fn $name() {
                script(Reply::Unit, Reply::Natural);
                assert!(WrappingDeserializer::new(W, Src(0)).$method(UV).is_ok());
                // the wrapper sees the visitor exactly once, and delegating reaches the same inner method
                assert!(n() == 3 && at(0) == Ev::Wrap && at(1) == Ev::M($id, 0, 0) && at(2) == Ev::VUnit);
                kani::cover!(true);
            }
        };
    }
    wraps!(wd_any, deserialize_any, ANY);
    wraps!(wd_bool, deserialize_bool, BOOL);
    wraps!(wd_i8, deserialize_i8, I8);
    wraps!(wd_i16, deserialize_i16, I16);
    wraps!(wd_i32, deserialize_i32, I32);
    wraps!(wd_i64, deserialize_i64, I64);
    wraps!(wd_i128, deserialize_i128, I128);
    wraps!(wd_u8, deserialize_u8, U8);
    wraps!(wd_u16, deserialize_u16, U16);
    wraps!(wd_u32, deserialize_u32, U32);
    wraps!(wd_u64, deserialize_u64, U64);
    wraps!(wd_u128, deserialize_u128, U128);
    wraps!(wd_f32, deserialize_f32, F32);
    wraps!(wd_f64, deserialize_f64, F64);
    wraps!(wd_char, deserialize_char, CHAR);
    wraps!(wd_str, deserialize_str, STR);
    wraps!(wd_string, deserialize_string, STRING);
    wraps!(wd_bytes, deserialize_bytes, BYTES);
    wraps!(wd_byte_buf, deserialize_byte_buf, BYTE_BUF);
    wraps!(wd_option, deserialize_option, OPTION);
    wraps!(wd_unit, deserialize_unit, UNIT);
    wraps!(wd_seq, deserialize_seq, SEQ);
    wraps!(wd_map, deserialize_map, MAP);
    wraps!(wd_identifier, deserialize_identifier, IDENTIFIER);
    wraps!(wd_ignored_any, deserialize_ignored_any, IGNORED_ANY);

    static F3: [&str; 3] = ["a", "b", "c"];

    #[kani::proof]
    fn wd_named_methods() {
        let len: usize = kani::any();
        script(Reply::Unit, Reply::Natural);
        assert!(WrappingDeserializer::new(W, Src(0)).deserialize_unit_struct("Nm", UV).is_ok());
        assert!(n() == 3 && at(0) == Ev::Wrap && at(1) == Ev::M(UNIT_STRUCT, 2, 0));
        script(Reply::Unit, Reply::Natural);
        assert!(WrappingDeserializer::new(W, Src(0)).deserialize_newtype_struct("Nm", UV).is_ok());
        assert!(n() == 3 && at(0) == Ev::Wrap && at(1) == Ev::M(NEWTYPE_STRUCT, 2, 0));
        script(Reply::Unit, Reply::Natural);
        assert!(WrappingDeserializer::new(W, Src(0)).deserialize_tuple(len, UV).is_ok());
        assert!(n() == 3 && at(0) == Ev::Wrap && at(1) == Ev::M(TUPLE, len, 0));
        script(Reply::Unit, Reply::Natural);
        assert!(WrappingDeserializer::new(W, Src(0)).deserialize_tuple_struct("Nm", len, UV).is_ok());
        assert!(n() == 3 && at(0) == Ev::Wrap && at(1) == Ev::M(TUPLE_STRUCT, 2, len));
        script(Reply::Unit, Reply::Natural);
        assert!(WrappingDeserializer::new(W, Src(0)).deserialize_struct("Nm", &F3, UV).is_ok());
        assert!(n() == 3 && at(0) == Ev::Wrap && at(1) == Ev::M(STRUCT, 2, 3));
        script(Reply::Unit, Reply::Natural);
        assert!(WrappingDeserializer::new(W, Src(0)).deserialize_enum("Nm", &F3, UV).is_ok());
        assert!(n() == 3 && at(0) == Ev::Wrap && at(1) == Ev::M(ENUM, 2, 3));
        let h: bool = kani::any();
        unsafe { HUMAN = h };
        assert!(WrappingDeserializer::new(W, Src(0)).is_human_readable() == h);
        kani::cover!(true);
    }
}
