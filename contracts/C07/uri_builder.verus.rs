// Verus unit C07/uri_builder: the *_raw push methods, push_literal and build of UriBuilder, extracted
// byte-for-byte, against an abstract byte-sequence view. Third-party types (BytesMut, Bytes, Uri) are
// external_body with ASSUMED specs (listed in the evidence); byte-string literal contents are opaque to
// Verus, so the separators appear as the uninterpreted constants lit_*; their concrete values ("?", "&",
// "=", "/") are checked by the Kani per-call harnesses.
//@@ source conjure-http/src/private/client/uri_builder.rs
use vstd::prelude::*;
use vstd::utf8::*;
verus! {

#[verifier::external_body]
pub struct Bytes { _p: () }
#[verifier::external_body]
pub struct BytesMut { _p: () }
#[verifier::external_body]
pub struct Uri { _p: () }
#[verifier::external_body]
#[derive(Debug)]
pub struct InvalidUri { _p: () }

impl Bytes { pub uninterp spec fn view(&self) -> Seq<u8>; }
impl BytesMut {
    pub uninterp spec fn view(&self) -> Seq<u8>;

    // ASSUMED (bytes crate): freeze keeps the contents; extend_from_slice appends and touches nothing else
    #[verifier::external_body]
    pub fn freeze(self) -> (r: Bytes) ensures r@ == self@ { unimplemented!() }

    #[verifier::external_body]
    pub fn extend_from_slice(&mut self, extend: &[u8])
        ensures final(self)@ == old(self)@ + extend@
    { unimplemented!() }

    #[verifier::external_body]
    pub fn is_empty(&self) -> (r: bool) ensures r == (self@.len() == 0) { unimplemented!() }
}

pub uninterp spec fn valid_uri_text(s: Seq<u8>) -> bool;
impl Uri {
    // ASSUMED contract of http::Uri::from_maybe_shared (http 1.x: MAX_LEN = u16::MAX - 1 = 65534)
    #[verifier::external_body]
    pub fn from_maybe_shared(src: Bytes) -> (r: Result<Uri, InvalidUri>)
        ensures r.is_ok() <==> (src@.len() <= 65534 && valid_uri_text(src@))
    { unimplemented!() }
}

// the escape of a value: what push_escaped appends (its byte-level definition is the Kani obligations
// C07.K.push_escaped.*; here only: it is a function of the value alone)
pub uninterp spec fn esc(value: Seq<char>) -> Seq<u8>;

pub open spec fn pushed_path(old: Seq<u8>, new: Seq<u8>, e: Seq<u8>) -> bool {
    &&& new.len() == old.len() + 1 + e.len()
    &&& new.subrange(0, old.len() as int) =~= old
    &&& new.subrange(old.len() as int + 1, new.len() as int) =~= e
}

pub open spec fn pushed_query(old: Seq<u8>, new: Seq<u8>, k: Seq<u8>, e: Seq<u8>) -> bool {
    &&& new.len() == old.len() + 1 + k.len() + 1 + e.len()
    &&& new.subrange(0, old.len() as int) =~= old
    &&& new.subrange(old.len() as int + 1, old.len() as int + 1 + k.len() as int) =~= k
    &&& new.subrange(old.len() as int + 2 + k.len() as int, new.len() as int) =~= e
}

// PLAIN text of a parameter value (ToPlain::to_plain; conjure-object). Uninterpreted: the wrappers below are
// verified for whatever text the value renders to.
pub trait Plain {}
pub uninterp spec fn plain_of<T>(v: T) -> Seq<char>;

pub open spec fn escs<T>(vs: Seq<T>) -> Seq<Seq<u8>> {
    Seq::new(vs.len(), |j: int| esc(plain_of(vs[j])))
}

// `new` is `old` followed by one query pair per element of `es`, in order (defined from the back: the loop appends)
pub open spec fn pushed_list(old: Seq<u8>, new: Seq<u8>, k: Seq<u8>, es: Seq<Seq<u8>>) -> bool
    decreases es.len()
{
    if es.len() == 0 {
        new =~= old
    } else {
        let m = new.len() - (2 + k.len() + es.last().len());
        &&& m >= old.len()
        &&& pushed_list(old, new.subrange(0, m), k, es.drop_last())
        &&& pushed_query(new.subrange(0, m), new, k, es.last())
    }
}

pub proof fn lemma_pushed_list_snoc(old: Seq<u8>, cur: Seq<u8>, new: Seq<u8>, k: Seq<u8>, es: Seq<Seq<u8>>, e: Seq<u8>)
    requires pushed_list(old, cur, k, es), pushed_query(cur, new, k, e), cur.len() >= old.len()
    ensures pushed_list(old, new, k, es.push(e)), new.len() >= old.len()
{
    let es2 = es.push(e);
    assert(es2.last() == e);
    assert(es2.drop_last() =~= es);
    let m = new.len() - (2 + k.len() + e.len());
    assert(m == cur.len());
    assert(new.subrange(0, m) =~= cur);
}

pub proof fn lemma_pushed_list_len(old: Seq<u8>, new: Seq<u8>, k: Seq<u8>, es: Seq<Seq<u8>>)
    requires pushed_list(old, new, k, es)
    ensures new.len() >= old.len()
    decreases es.len()
{
    if es.len() > 0 {
        let m = new.len() - (2 + k.len() + es.last().len());
        lemma_pushed_list_len(old, new.subrange(0, m), k, es.drop_last());
    }
}

pub struct UriBuilder {
    buf: BytesMut,
    in_path: bool,
}

impl UriBuilder {
    pub closed spec fn bytes(&self) -> Seq<u8> { self.buf@ }
    pub closed spec fn in_path_spec(&self) -> bool { self.in_path }

    // ASSUMED here, discharged by Kani (C07.K.push_escaped.ascii_*, two_byte_utf8) + percent-encoding's
    // per-character concatenation: appends esc(value), nothing else changes
    #[verifier::external_body]
    fn push_escaped(&mut self, value: &str)
        ensures final(self).bytes() == old(self).bytes() + esc(value@), final(self).in_path_spec() == old(self).in_path_spec()
    { unimplemented!() }

//@@ fn UriBuilder::push_literal vfn=UriBuilder::push_literal
//@@ spec
        ensures
            final(self).bytes() == old(self).bytes() + encode_utf8(components@),
            final(self).in_path_spec() == old(self).in_path_spec(),
//@@ end

//@@ fn UriBuilder::push_path_parameter_raw vfn=UriBuilder::push_path_parameter_raw
//@@ spec
        ensures
            // old contents ++ exactly one separator byte ++ escape of the value; nothing else
            pushed_path(old(self).bytes(), final(self).bytes(), esc(parameter@)),
            final(self).in_path_spec() == old(self).in_path_spec(),
//@@ end

//@@ fn UriBuilder::push_query_parameter_raw vfn=UriBuilder::push_query_parameter_raw
//@@ spec
        ensures
            // old contents ++ one separator byte ++ key bytes ++ one byte ++ escape of the value; nothing else
            pushed_query(old(self).bytes(), final(self).bytes(), encode_utf8(key@), esc(value@)),
            !final(self).in_path_spec(),
//@@ end

    // ASSUMED (one-line delegation through `&dyn Plain` / ToPlain::to_plain, which neither verifier can execute):
    // push_query_parameter(key, value) == push_query_parameter_raw(key, plain text of value). The real parameter type
    // is `&dyn Plain`; the call sites in the helpers below are textually identical for a generic `&T`.
    #[verifier::external_body]
    pub fn push_query_parameter<T: Plain>(&mut self, key: &str, value: &T)
        ensures
            pushed_query(old(self).bytes(), final(self).bytes(), encode_utf8(key@), esc(plain_of(*value))),
            !final(self).in_path_spec(),
    { unimplemented!() }

//@@ fn UriBuilder::push_optional_query_parameter vfn=UriBuilder::push_optional_query_parameter
//@@ spec
        ensures
            // absent: nothing at all changes; present: exactly one pair
            value.is_none() ==> final(self).bytes() =~= old(self).bytes() && final(self).in_path_spec() == old(self).in_path_spec(),
            value.is_some() ==> pushed_query(old(self).bytes(), final(self).bytes(), encode_utf8(key@), esc(plain_of(value.unwrap()))) && !final(self).in_path_spec(),
//@@ end

//@@ fn UriBuilder::push_list_query_parameter vfn=UriBuilder::push_list_query_parameter
//@@ subst for $LOOPVAR0 in $LOOPEXPR0 ==> for $LOOPVAR0 in it: $LOOPEXPR0
//@@ spec
        ensures
            // one pair per supplied value, in order, nothing else; an empty list leaves the builder untouched
            pushed_list(old(self).bytes(), final(self).bytes(), encode_utf8(key@), escs(values@)),
            final(self).in_path_spec() == (old(self).in_path_spec() && values@.len() == 0),
//@@ loop 0
            invariant
                pushed_list(old(self).bytes(), self.bytes(), encode_utf8(key@), escs(values@.take(it.index@ as int))),
                self.bytes().len() >= old(self).bytes().len(),
                self.in_path_spec() == (old(self).in_path_spec() && it.index@ == 0),
                0 <= it.index@ <= values@.len(),
//@@ loopbody 0
            let ghost cur = self.bytes();
            let ghost i = it.index@ as int;
//@@ loopend 0
            proof {
                lemma_pushed_list_snoc(old(self).bytes(), cur, self.bytes(), encode_utf8(key@), escs(values@.take(i)), esc(plain_of(values@[i])));
                assert(escs(values@.take(i + 1)) =~= escs(values@.take(i)).push(esc(plain_of(values@[i]))));
            }
//@@ post
        proof { assert(values@.take(values@.len() as int) =~= values@); }
//@@ end

//@@ fn UriBuilder::build vfn=UriBuilder::build
//@@ spec
        requires valid_uri_text(self.bytes())
//@@ end
}

// ---------------------------------------------------------------------------------- counting lemma
pub open spec fn count(s: Seq<u8>, c: u8) -> nat
    decreases s.len()
{
    if s.len() == 0 { 0 } else { count(s.drop_last(), c) + if s.last() == c { 1nat } else { 0nat } }
}

pub proof fn lemma_count_concat(a: Seq<u8>, b: Seq<u8>, c: u8)
    ensures count(a + b, c) == count(a, c) + count(b, c)
    decreases b.len()
{
    if b.len() == 0 {
        assert(a + b =~= a);
    } else {
        lemma_count_concat(a, b.drop_last(), c);
        assert((a + b).drop_last() =~= a + b.drop_last());
        assert((a + b).last() == b.last());
    }
}

pub proof fn lemma_count_absent(s: Seq<u8>, c: u8)
    requires forall|i: int| 0 <= i < s.len() ==> s[i] != c
    ensures count(s, c) == 0
    decreases s.len()
{
    if s.len() > 0 { lemma_count_absent(s.drop_last(), c); }
}

// A pushed path parameter adds exactly one '/' and no '?', '&', '=', '#', provided the escape contains none
// of them (corollary of the Kani encode-set obligations): segments, pairs and fragment are untouched.
pub proof fn lemma_path_push_structure(buf: Seq<u8>, e: Seq<u8>, c: u8)
    requires forall|i: int| 0 <= i < e.len() ==> e[i] != c
    ensures count(buf + seq![47u8] + e, c) == count(buf, c) + if c == 47u8 { 1nat } else { 0nat }
{
    lemma_count_concat(buf + seq![47u8], e, c);
    lemma_count_concat(buf, seq![47u8], c);
    lemma_count_absent(e, c);
    assert(seq![47u8].drop_last() =~= Seq::<u8>::empty());
    assert(count(seq![47u8], c) == if c == 47u8 { 1nat } else { 0nat }) by {
        assert(count(Seq::<u8>::empty(), c) == 0);
    }
}

// A pushed query pair adds exactly one separator `sep` and one '=', given that neither key nor escape
// contains the counted character.
pub proof fn lemma_query_push_structure(buf: Seq<u8>, sep: u8, key: Seq<u8>, e: Seq<u8>, c: u8)
    requires
        forall|i: int| 0 <= i < e.len() ==> e[i] != c,
        forall|i: int| 0 <= i < key.len() ==> key[i] != c,
    ensures
        count(buf + seq![sep] + key + seq![61u8] + e, c)
            == count(buf, c) + (if c == sep { 1nat } else { 0nat }) + (if c == 61u8 { 1nat } else { 0nat })
{
    lemma_count_concat(buf + seq![sep] + key + seq![61u8], e, c);
    lemma_count_concat(buf + seq![sep] + key, seq![61u8], c);
    lemma_count_concat(buf + seq![sep], key, c);
    lemma_count_concat(buf, seq![sep], c);
    lemma_count_absent(e, c);
    lemma_count_absent(key, c);
    assert(seq![sep].drop_last() =~= Seq::<u8>::empty());
    assert(seq![61u8].drop_last() =~= Seq::<u8>::empty());
    assert(count(Seq::<u8>::empty(), c) == 0);
    assert(count(seq![sep], c) == if c == sep { 1nat } else { 0nat });
    assert(count(seq![61u8], c) == if c == 61u8 { 1nat } else { 0nat });
}

} // verus!
fn main() {}
