// Verus unit C07/uri_builder: the *_raw push methods, push_literal and build of UriBuilder, extracted
// byte-for-byte, against an abstract byte-sequence view. Third-party types (BytesMut, Bytes, Uri) are
// external_body with ASSUMED specs (listed in the evidence); byte-string literal contents are opaque to
// Verus, so the separators appear as the uninterpreted constants lit_*; their concrete values ("?", "&",
// "=", "/") are checked by the Kani per-call harnesses.
//@@ source conjure-http/src/private/client/uri_builder.rs
use vstd::prelude::*;
use vstd::utf8::*;
verus! {

#[verifier::external_body]
pub struct Bytes { _p: () }
#[verifier::external_body]
pub struct BytesMut { _p: () }
#[verifier::external_body]
pub struct Uri { _p: () }
#[verifier::external_body]
#[derive(Debug)]
pub struct InvalidUri { _p: () }

impl Bytes { pub uninterp spec fn view(&self) -> Seq<u8>; }
impl BytesMut {
    pub uninterp spec fn view(&self) -> Seq<u8>;

    // ASSUMED (bytes crate): freeze keeps the contents; extend_from_slice appends and touches nothing else
    #[verifier::external_body]
    pub fn freeze(self) -> (r: Bytes) ensures r@ == self@ { unimplemented!() }

    #[verifier::external_body]
    pub fn extend_from_slice(&mut self, extend: &[u8])
        ensures final(self)@ == old(self)@ + extend@
    { unimplemented!() }

    #[verifier::external_body]
    pub fn is_empty(&self) -> (r: bool) ensures r == (self@.len() == 0) { unimplemented!() }
}

pub uninterp spec fn valid_uri_text(s: Seq<u8>) -> bool;
impl Uri {
    // ASSUMED contract of http::Uri::from_maybe_shared (http 1.x: MAX_LEN = u16::MAX - 1 = 65534)
    #[verifier::external_body]
    pub fn from_maybe_shared(src: Bytes) -> (r: Result<Uri, InvalidUri>)
        ensures r.is_ok() <==> (src@.len() <= 65534 && valid_uri_text(src@))
    { unimplemented!() }
}

// the escape of a value: what push_escaped appends (its byte-level definition is the Kani obligations
// C07.K.push_escaped.*; here only: it is a function of the value alone)
pub uninterp spec fn esc(value: Seq<char>) -> Seq<u8>;

pub open spec fn pushed_path(old: Seq<u8>, new: Seq<u8>, e: Seq<u8>) -> bool {
    &&& new.len() == old.len() + 1 + e.len()
    &&& new.subrange(0, old.len() as int) =~= old
    &&& new.subrange(old.len() as int + 1, new.len() as int) =~= e
}

pub open spec fn pushed_query(old: Seq<u8>, new: Seq<u8>, k: Seq<u8>, e: Seq<u8>) -> bool {
    &&& new.len() == old.len() + 1 + k.len() + 1 + e.len()
    &&& new.subrange(0, old.len() as int) =~= old
    &&& new.subrange(old.len() as int + 1, old.len() as int + 1 + k.len() as int) =~= k
    &&& new.subrange(old.len() as int + 2 + k.len() as int, new.len() as int) =~= e
}

pub struct UriBuilder {
    buf: BytesMut,
    in_path: bool,
}

impl UriBuilder {
    pub closed spec fn bytes(&self) -> Seq<u8> { self.buf@ }
    pub closed spec fn in_path_spec(&self) -> bool { self.in_path }

    // ASSUMED here, discharged by Kani (C07.K.push_escaped.ascii_*, two_byte_utf8) + percent-encoding's
    // per-character concatenation: appends esc(value), nothing else changes
    #[verifier::external_body]
    fn push_escaped(&mut self, value: &str)
        ensures final(self).bytes() == old(self).bytes() + esc(value@), final(self).in_path_spec() == old(self).in_path_spec()
    { unimplemented!() }

//@@ fn UriBuilder::push_literal vfn=UriBuilder::push_literal
//@@ spec
        ensures
            final(self).bytes() == old(self).bytes() + encode_utf8(components@),
            final(self).in_path_spec() == old(self).in_path_spec(),
//@@ end

//@@ fn UriBuilder::push_path_parameter_raw vfn=UriBuilder::push_path_parameter_raw
//@@ spec
        ensures
            // old contents ++ exactly one separator byte ++ escape of the value; nothing else
            pushed_path(old(self).bytes(), final(self).bytes(), esc(parameter@)),
            final(self).in_path_spec() == old(self).in_path_spec(),
//@@ end

//@@ fn UriBuilder::push_query_parameter_raw vfn=UriBuilder::push_query_parameter_raw
//@@ spec
        ensures
            // old contents ++ one separator byte ++ key bytes ++ one byte ++ escape of the value; nothing else
            pushed_query(old(self).bytes(), final(self).bytes(), encode_utf8(key@), esc(value@)),
            !final(self).in_path_spec(),
//@@ end

//@@ fn UriBuilder::build vfn=UriBuilder::build
//@@ spec
        requires valid_uri_text(self.bytes())
//@@ end
}

// ---------------------------------------------------------------------------------- counting lemma
pub open spec fn count(s: Seq<u8>, c: u8) -> nat
    decreases s.len()
{
    if s.len() == 0 { 0 } else { count(s.drop_last(), c) + if s.last() == c { 1nat } else { 0nat } }
}

pub proof fn lemma_count_concat(a: Seq<u8>, b: Seq<u8>, c: u8)
    ensures count(a + b, c) == count(a, c) + count(b, c)
    decreases b.len()
{
    if b.len() == 0 {
        assert(a + b =~= a);
    } else {
        lemma_count_concat(a, b.drop_last(), c);
        assert((a + b).drop_last() =~= a + b.drop_last());
        assert((a + b).last() == b.last());
    }
}

pub proof fn lemma_count_absent(s: Seq<u8>, c: u8)
    requires forall|i: int| 0 <= i < s.len() ==> s[i] != c
    ensures count(s, c) == 0
    decreases s.len()
{
    if s.len() > 0 { lemma_count_absent(s.drop_last(), c); }
}

// A pushed path parameter adds exactly one '/' and no '?', '&', '=', '#', provided the escape contains none
// of them (corollary of the Kani encode-set obligations): segments, pairs and fragment are untouched.
pub proof fn lemma_path_push_structure(buf: Seq<u8>, e: Seq<u8>, c: u8)
    requires forall|i: int| 0 <= i < e.len() ==> e[i] != c
    ensures count(buf + seq![47u8] + e, c) == count(buf, c) + if c == 47u8 { 1nat } else { 0nat }
{
    lemma_count_concat(buf + seq![47u8], e, c);
    lemma_count_concat(buf, seq![47u8], c);
    lemma_count_absent(e, c);
    assert(seq![47u8].drop_last() =~= Seq::<u8>::empty());
    assert(count(seq![47u8], c) == if c == 47u8 { 1nat } else { 0nat }) by {
        assert(count(Seq::<u8>::empty(), c) == 0);
    }
}

// A pushed query pair adds exactly one separator `sep` and one '=', given that neither key nor escape
// contains the counted character.
pub proof fn lemma_query_push_structure(buf: Seq<u8>, sep: u8, key: Seq<u8>, e: Seq<u8>, c: u8)
    requires
        forall|i: int| 0 <= i < e.len() ==> e[i] != c,
        forall|i: int| 0 <= i < key.len() ==> key[i] != c,
    ensures
        count(buf + seq![sep] + key + seq![61u8] + e, c)
            == count(buf, c) + (if c == sep { 1nat } else { 0nat }) + (if c == 61u8 { 1nat } else { 0nat })
{
    lemma_count_concat(buf + seq![sep] + key + seq![61u8], e, c);
    lemma_count_concat(buf + seq![sep] + key, seq![61u8], c);
    lemma_count_concat(buf + seq![sep], key, c);
    lemma_count_concat(buf, seq![sep], c);
    lemma_count_absent(e, c);
    lemma_count_absent(key, c);
    assert(seq![sep].drop_last() =~= Seq::<u8>::empty());
    assert(seq![61u8].drop_last() =~= Seq::<u8>::empty());
    assert(count(Seq::<u8>::empty(), c) == 0);
    assert(count(seq![sep], c) == if c == sep { 1nat } else { 0nat });
    assert(count(seq![61u8], c) == if c == 61u8 { 1nat } else { 0nat });
}

} // verus!
fn main() {}
