// Kani harness module for C07, appended to a scratch copy of conjure-http/src/private/client/uri_builder.rs
#[cfg(kani)]
mod verif_c07 {
    use super::*;

    // U = unreserved set of the WHATWG component percent-encode set within ASCII (property statement:
    // nothing a value contains may act as a delimiter)
    pub fn unreserved(b: u8) -> bool {
        matches!(b, b'A'..=b'Z' | b'a'..=b'z' | b'0'..=b'9' | b'-' | b'.' | b'_' | b'~' | b'!' | b'*' | b'\'' | b'(' | b')')
    }
    pub fn hex(n: u8) -> u8 {
        if n < 10 {
            b'0' + n
        } else {
            b'A' + (n - 10)
        }
    }
    /// `c` is the hex digit of `n` in either case (the statement does not prescribe the case of %HH)
    pub fn hexeq(c: u8, n: u8) -> bool {
        c == hex(n) || (n >= 10 && c == b'a' + (n - 10))
    }
    /// characters that delimit segments / pairs / fragments or that form_urlencoded rewrites
    pub fn structural(b: u8) -> bool {
        matches!(b, b'/' | b'?' | b'#' | b'&' | b'=' | b'+' | b'%' | b' ' | b';') || b < 0x20 || b == 0x7f
    }
    /// what MUST be percent-encoded for the property to hold: the structural characters above and every ASCII character that
    /// may not appear raw in a URI (RFC 3986: outside unreserved / sub-delims / ':' / '@'). Encoding MORE than this is harmless
    /// (the URI stays valid and decodes back to the same value), so the obligations only demand inclusion.
    pub fn must_encode(b: u8) -> bool {
        structural(b) || matches!(b, b'"' | b'<' | b'>' | b'[' | b'\\' | b']' | b'^' | b'`' | b'{' | b'|' | b'}')
    }
    /// `out` is an admissible escape of the ASCII character `b`: the character itself (only if it need not be encoded) or %HH
    pub fn escape_ok(out: &[u8], b: u8) -> bool {
        (out.len() == 1 && out[0] == b && !must_encode(b)) || (out.len() == 3 && out[0] == b'%' && hexeq(out[1], b >> 4) && hexeq(out[2], b & 15))
    }

//@@INTERNALS-BEGIN
    // the copy of the encode sets in conjure-macros/src/client.rs, extracted textually on every run
    pub mod macro_copy {
        use percent_encoding::AsciiSet;
//@@MACRO_CONSTS@@
    }

    /// membership of an ASCII byte in an encode set, observed through the crate's public encoder
    /// (AsciiSet::contains is private in the pinned percent-encoding)
    pub fn in_set(set: &'static AsciiSet, b: u8) -> bool {
        let arr = [b];
        let first = percent_encoding::percent_encode(&arr, set).next().unwrap();
        first.len() == 3
    }

    // ---- complete: the encode set itself ---------------------------------------------------------------
    #[kani::proof]
    fn component_set_membership() {
        let b: u8 = kani::any();
        kani::assume(b < 128);
        // everything that must be encoded is in the set (the set may contain more)
        if must_encode(b) {
            assert!(in_set(COMPONENT, b));
        }
        // alphanumerics at least stay readable (sanity: the set is not "everything")
        if b.is_ascii_alphanumeric() {
            assert!(!in_set(COMPONENT, b));
        }
        kani::cover!(in_set(COMPONENT, b));
        kani::cover!(!in_set(COMPONENT, b));
    }

    #[kani::proof]
    fn macro_sets_equal() {
        let b: u8 = kani::any();
        kani::assume(b < 128);
        // the copy used at macro-expansion time for literal segments and query keys must encode everything that must be
        // encoded, too (the two copies need not be identical for the property to hold)
        if must_encode(b) {
            assert!(in_set(macro_copy::COMPONENT, b));
        }
        kani::cover!(true);
    }

    // ---- complete over ASCII: the real push_escaped on a one-character value -----------------------------
    // (split into four byte ranges so that the four CBMC runs go in parallel)
    macro_rules! push_escaped_range {
        ($name:ident, $lo:expr, $hi:expr) => {
            #[kani::proof]
            #[kani::unwind(8)]
            fn $name() {
                let b: u8 = kani::any();
                kani::assume(b >= $lo && b < $hi);
                let arr = [b];
                let s = std::str::from_utf8(&arr).unwrap();
                let mut ub = UriBuilder::new();
                ub.push_escaped(s);
                let out = &ub.buf[..];
                assert!(escape_ok(out, b));
                // corollary: no structural character survives unescaped
                assert!(!structural(out[0]) || out[0] == b'%');
                assert!(ub.in_path);
                kani::cover!(true);
                std::mem::forget(ub);
            }
        };
    }
    push_escaped_range!(push_escaped_ascii_00_1f, 0u8, 32u8);
    push_escaped_range!(push_escaped_ascii_20_3f, 32u8, 64u8);
    push_escaped_range!(push_escaped_ascii_40_5f, 64u8, 96u8);
    push_escaped_range!(push_escaped_ascii_60_7f, 96u8, 128u8);

    // the iterator the loop in push_escaped consumes, without BytesMut (cheaper; all ASCII in one run)
    #[kani::proof]
    #[kani::unwind(6)]
    fn percent_encode_component_ascii() {
        let b: u8 = kani::any();
        kani::assume(b < 128);
        let arr = [b];
        let s = std::str::from_utf8(&arr).unwrap();
        let mut out = [0u8; 3];
        let mut n = 0;
        for chunk in utf8_percent_encode(s, COMPONENT) {
            let cb = chunk.as_bytes();
            let mut j = 0;
            while j < cb.len() {
                assert!(n < 3);
                out[n] = cb[j];
                n += 1;
                j += 1;
            }
        }
        assert!(escape_ok(&out[..n], b));
        kani::cover!(true);
    }

    // bounded: every two-byte UTF-8 sequence is fully %HH-encoded
    #[kani::proof]
    #[kani::unwind(10)]
    fn push_escaped_two_byte_utf8() {
        let bytes: [u8; 2] = kani::any();
        kani::assume(bytes[0] >= 0x80);
        if let Ok(s) = std::str::from_utf8(&bytes) {
            let mut ub = UriBuilder::new();
            ub.push_escaped(s);
            let out = &ub.buf[..];
            assert!(out.len() == 6);
            assert!(out[0] == b'%' && hexeq(out[1], bytes[0] >> 4) && hexeq(out[2], bytes[0] & 15));
            assert!(out[3] == b'%' && hexeq(out[4], bytes[1] >> 4) && hexeq(out[5], bytes[1] & 15));
            std::mem::forget(ub);
        }
        kani::cover!(true);
    }

    // ---- server side inverse for one ASCII character: percent-decoding the escape gives the byte back ------
    #[kani::proof]
    #[kani::unwind(8)]
    fn percent_decode_inverts_escape_ascii() {
        let b: u8 = kani::any();
        kani::assume(b < 128);
        let esc: [u8; 3] = [b'%', hex(b >> 4), hex(b & 15)];
        let one: [u8; 1] = [b];
        // what push_escaped appends for this character (obligations push_escaped_ascii_*)
        // both admissible escapes decode back to the character: the raw character (when it need not be encoded) and %HH
        let raw_ok = !must_encode(b);
        let pick_raw: bool = kani::any();
        kani::assume(!pick_raw || raw_ok);
        let src: &[u8] = if pick_raw { &one } else { &esc };
        let mut it = percent_encoding::percent_decode(src);
        assert!(it.next() == Some(b));
        assert!(it.next().is_none());
        kani::cover!(true);
    }
//@@INTERNALS-END
    // ---- per-call structure contracts (pre-state: empty buffer, symbolic in_path) ------------------------
    #[kani::proof]
    #[kani::unwind(8)]
    fn push_query_parameter_raw_contract() {
        let b: u8 = kani::any();
        kani::assume(b < 128);
        let arr = [b];
        let sv = std::str::from_utf8(&arr).unwrap();
        let in_path: bool = kani::any();
        let mut ub = UriBuilder { buf: BytesMut::new(), in_path };
        ub.push_query_parameter_raw("k", sv);
        let out = &ub.buf[..];
        // exactly: separator, key, '=', escaped value; and the builder has left the path
        assert!(!ub.in_path);
        assert!(out[0] == if in_path { b'?' } else { b'&' });
        assert!(out[1] == b'k' && out[2] == b'=');
        assert!(escape_ok(&out[3..], b));
        kani::cover!(in_path);
        kani::cover!(!in_path);
        std::mem::forget(ub);
    }

    #[kani::proof]
    #[kani::unwind(8)]
    fn push_path_parameter_raw_contract() {
        let b: u8 = kani::any();
        kani::assume(b < 128);
        let arr = [b];
        let sv = std::str::from_utf8(&arr).unwrap();
        let mut ub = UriBuilder::new();
        ub.push_path_parameter_raw(sv);
        let out = &ub.buf[..];
        // exactly one '/' followed by the escaped value; still in the path
        assert!(ub.in_path);
        assert!(out[0] == b'/');
        assert!(escape_ok(&out[1..], b));
        kani::cover!(true);
        std::mem::forget(ub);
    }

    #[kani::proof]
    #[kani::unwind(8)]
    fn push_literal_contract() {
        let mut ub = UriBuilder::new();
        ub.push_literal("/a/b");
        let out = &ub.buf[..];
        assert!(out.len() == 4 && out[0] == b'/' && out[1] == b'a' && out[2] == b'/' && out[3] == b'b');
        assert!(ub.in_path);
        kani::cover!(true);
        std::mem::forget(ub);
    }

    // empty value: the segment / pair is still there
    #[kani::proof]
    #[kani::unwind(8)]
    fn empty_values_keep_structure() {
        let mut ub = UriBuilder::new();
        ub.push_path_parameter_raw("");
        assert!(ub.buf.len() == 1 && ub.buf[0] == b'/');
        // an empty parameter followed by another one: both separators are there (two adjacent '/')
        ub.push_path_parameter_raw("a");
        assert!(ub.buf.len() == 3 && ub.buf[0] == b'/' && ub.buf[1] == b'/' && ub.buf[2] == b'a');
        let mut q = UriBuilder::new();
        q.push_query_parameter_raw("k", "");
        assert!(q.buf.len() == 3 && q.buf[0] == b'?' && q.buf[1] == b'k' && q.buf[2] == b'=');
        kani::cover!(true);
        std::mem::forget(ub);
        std::mem::forget(q);
    }

}
