"""C07 — Parameter values cannot alter the request URI structure and decode back exactly."""
import os, re
from vf import vx, find_item, text, Undecided

U = "conjure-http/src/private/client/uri_builder.rs"
M = "conjure-macros/src/client.rs"
_HERE = os.path.dirname(os.path.abspath(__file__))

TRUSTED = [
    "rustc, Verus 0.2026.09.13 + z3, Kani 0.68 + CBMC 6.11",
    "percent-encoding: utf8_percent_encode yields the per-character chunks concatenated (executed by Kani for one ASCII character and all 2-byte sequences; longer values rest on the crate's iterator contract)",
    "bytes::BytesMut::extend_from_slice appends and touches nothing else; freeze keeps the contents (ASSUMED in the Verus unit, executed in the Kani per-call harnesses)",
    "http::Uri::from_maybe_shared(b) is Ok <=> b.len() <= 65534 && b is valid URI text (ASSUMED in the Verus unit)",
    "form_urlencoded / percent_decode_str on the server side beyond the one-character inverse harness",
]
ASSUMPTIONS = [
    "Verus unit: BytesMut/Bytes/Uri are external_body types with the assumed specs above; struct UriBuilder {buf, in_path} re-declared by hand (shape scan); byte-string literal contents are opaque (the separator values '?', '&', '=', '/' are checked by the Kani per-call obligations)",
    "Verus unit: push_escaped is external_body with contract 'appends esc(value), in_path unchanged'; its byte-level meaning is the Kani obligations C07.K.push_escaped.*",
    "push_path_parameter / push_query_parameter are one-line delegations through `&dyn Plain` / ToPlain::to_plain (fmt machinery; dyn) and are NOT under contract; in the Verus unit push_query_parameter is external_body with the assumed contract 'push_query_parameter(key, v) == push_query_parameter_raw(key, plain text of v)' (declared generic in T instead of &dyn Plain; call sites are textually identical)",
    "push_set_query_parameter (iteration over BTreeSet has no vstd specification) is NOT under contract",
    "cfg(kani) harness module appended to a scratch copy; the macro crate's encode-set constants are extracted textually into the harness on every run",
]
NOT_DECIDED = [
    "server-side parse_query_params (HashMap + form_urlencoded; a one-pair harness over form_urlencoded::parse did not finish in 10 min) and path_param decoding beyond one character",
    "values longer than one character through the real BytesMut path (per-character concatenation is percent-encoding's contract)",
    "ToPlain wrappers push_path_parameter / push_query_parameter and the set query helper",
    "absent optionals / empty lists through the compiled code: the frame condition (nothing written, in_path unchanged) is proved in Verus on the current text of push_optional_query_parameter / push_list_query_parameter only; a Kani harness for None and an empty slice did not finish in 300 s, so after a restructuring that Verus's templates cannot follow the result is undecided (seed C07-s6-empty-list-flips-in-path)",
]

def VO(name, vfn, fn, desc, twin=None, known=None):
    return dict(name=name, vfn=vfn, functions=[U + "::" + fn] if fn else [], desc=desc, twin=twin or [], known=known)

VERUS_UNITS = [dict(
    name="uri_builder", template="uri_builder.verus.rs",
    obligations=[
        VO("C07.V.push_literal.post", "UriBuilder::push_literal", "UriBuilder::push_literal", "appends exactly the literal's bytes; in_path unchanged (all pre-states, all literals)", ["C07.K.push_literal"]),
        VO("C07.V.push_path_parameter_raw.post", "UriBuilder::push_path_parameter_raw", "UriBuilder::push_path_parameter_raw",
           "final buffer == old ++ one separator byte ++ esc(value), nothing else changes (all pre-states, all values)", ["C07.K.push_path_parameter_raw"]),
        VO("C07.V.push_query_parameter_raw.post", "UriBuilder::push_query_parameter_raw", "UriBuilder::push_query_parameter_raw",
           "final buffer == old ++ one separator byte ++ key ++ one byte ++ esc(value); in_path becomes false (all pre-states, keys, values)", ["C07.K.push_query_parameter_raw"]),
        VO("C07.V.push_optional_query_parameter.post", "UriBuilder::push_optional_query_parameter", "UriBuilder::push_optional_query_parameter",
           "absent optional: nothing changes (buffer and in_path); present: exactly one pair (all pre-states)"),
        VO("C07.V.push_list_query_parameter.post", "UriBuilder::push_list_query_parameter", "UriBuilder::push_list_query_parameter",
           "one key=value pair per supplied value, in order, nothing else, for every list length (loop invariant); an empty list leaves buffer and in_path untouched"),
        VO("C07.V.lemma_pushed_list_snoc", "lemma_pushed_list_snoc", None, "lemma: appending one pair extends pushed_list"),
        VO("C07.V.lemma_pushed_list_len", "lemma_pushed_list_len", None, "lemma: pushed_list never shrinks the buffer (induction)"),
        VO("C07.V.build.no_panic", "UriBuilder::build", "UriBuilder::build", "build does not panic: the unwrap() precondition holds for every valid-URI buffer", known="C07-build-panic-over-65534"),
        VO("C07.V.lemma_count_concat", "lemma_count_concat", None, "counting lemma: count distributes over concatenation (induction)"),
        VO("C07.V.lemma_count_absent", "lemma_count_absent", None, "counting lemma: absent character counts 0 (induction)"),
        VO("C07.V.lemma_path_push_structure", "lemma_path_push_structure", None, "a path push adds exactly one '/' and no other delimiter when the escape contains none"),
        VO("C07.V.lemma_query_push_structure", "lemma_query_push_structure", None, "a query push adds exactly one separator and one '=' when key and escape contain none"),
    ])]

def _module_api(ws):
    """harnesses that use only UriBuilder::new / push_*_raw / push_literal and the two fields"""
    s = open(os.path.join(_HERE, "uri_builder.kani.rs")).read()
    a, b = s.index("//@@INTERNALS-BEGIN"), s.index("//@@INTERNALS-END")
    return s[:a] + s[b + len("//@@INTERNALS-END"):]

def _module(ws):
    s = open(os.path.join(_HERE, "uri_builder.kani.rs")).read()
    doc = vx(os.path.join(ws, M))
    parts = []
    for name in ["QUERY", "PATH", "USERINFO", "COMPONENT"]:
        it = find_item(doc, "const " + name, kind="const")
        t = text(doc, it["noattr_start"], it["end"])
        parts.append("        pub " + t.replace("\n", "\n        "))
    assert "//@@MACRO_CONSTS@@" in s
    return s.replace("//@@MACRO_CONSTS@@", "\n".join(parts))

def H(name, ob, fns, desc, kind="complete", bound=None, tier="quick", timeout=400):
    return dict(name=name, ob=ob, functions=[(f if "/" in f else U + "::" + f) for f in fns], desc=desc, kind=kind, bound=bound, tier=tier, timeout=timeout)

_ALL_H = [
        H("component_set_membership", "C07.K.component_set.membership", ["const COMPONENT", "const USERINFO", "const PATH", "const QUERY"],
          "every ASCII character that must be encoded (delimiters, characters form_urlencoded rewrites, characters illegal in a URI) is in COMPONENT; alphanumerics are not (the set may contain more than necessary)"),
        H("macro_sets_equal", "C07.K.macro_set.equal", ["const COMPONENT", M + "::const COMPONENT", M + "::const USERINFO", M + "::const PATH", M + "::const QUERY"],
          "the COMPONENT copy in conjure-macros also contains every character that must be encoded"),
        H("percent_encode_component_ascii", "C07.K.percent_encode.ascii", ["const COMPONENT"],
          "utf8_percent_encode(c, COMPONENT) for every ASCII c: %HH of c, or c itself only when c need not be encoded"),
        H("push_escaped_ascii_00_1f", "C07.K.push_escaped.ascii_00_1f", ["UriBuilder::push_escaped"], "real push_escaped (BytesMut), bytes 0x00-0x1f: %HH", tier="thorough", timeout=900),
        H("push_escaped_ascii_20_3f", "C07.K.push_escaped.ascii_20_3f", ["UriBuilder::push_escaped"], "real push_escaped, bytes 0x20-0x3f", tier="thorough", timeout=900),
        H("push_escaped_ascii_40_5f", "C07.K.push_escaped.ascii_40_5f", ["UriBuilder::push_escaped"], "real push_escaped, bytes 0x40-0x5f", tier="thorough", timeout=900),
        H("push_escaped_ascii_60_7f", "C07.K.push_escaped.ascii_60_7f", ["UriBuilder::push_escaped"], "real push_escaped, bytes 0x60-0x7f", tier="thorough", timeout=900),
        H("percent_decode_inverts_escape_ascii", "C07.K.decode_inverse.ascii", ["UriBuilder::push_escaped", "conjure-http/src/private/server.rs::fn path_param"],
          "percent-decoding what push_escaped appends for an ASCII character yields that character"),
        H("push_escaped_two_byte_utf8", "C07.K.push_escaped.two_byte_utf8", ["UriBuilder::push_escaped"],
          "every 2-byte UTF-8 sequence is fully %HH-encoded", kind="bounded", bound="all 2-byte UTF-8 sequences", tier="thorough", timeout=1500),
        H("push_query_parameter_raw_contract", "C07.K.push_query_parameter_raw", ["UriBuilder::push_query_parameter_raw"],
          "one call through the real BytesMut path, symbolic in_path and every ASCII character as the value: '?' or '&', key \"k\", '=', escape; in_path false", kind="bounded", bound="1 ASCII character value, key \"k\", empty buffer (general statement: C07.V.push_query_parameter_raw.post)", timeout=1200),
        H("push_path_parameter_raw_contract", "C07.K.push_path_parameter_raw", ["UriBuilder::push_path_parameter_raw"],
          "one call through the real BytesMut path, every ASCII character as the value: '/' then itself or %HH; in_path kept", kind="bounded", bound="1 ASCII character value, empty buffer (general statement: C07.V.push_path_parameter_raw.post)", timeout=1200),
        H("push_literal_contract", "C07.K.push_literal", ["UriBuilder::push_literal"], "literal appended unchanged", kind="bounded", bound="literal \"/a/b\""),
        H("empty_values_keep_structure", "C07.K.empty_values", ["UriBuilder::push_path_parameter_raw", "UriBuilder::push_query_parameter_raw"],
          "empty value: the segment / pair is still produced", kind="bounded", bound="2 concrete calls"),
    ]
_API = {"push_query_parameter_raw_contract", "push_path_parameter_raw_contract", "push_literal_contract", "empty_values_keep_structure"}
KANI_UNITS = [
    # two units so that a refactoring of the private helpers (signature of push_escaped, names of the sets) can only
    # make the internals unit undecided; the API-level contracts still compile and decide
    dict(name="uri_builder_api", crate="conjure-http", modpath="private::client::uri_builder::verif_c07",
         injections=[dict(file=U, module_fn=_module_api)], harnesses=[h for h in _ALL_H if h["name"] in _API]),
    dict(name="uri_builder_internals", crate="conjure-http", modpath="private::client::uri_builder::verif_c07",
         injections=[dict(file=U, module_fn=_module)], harnesses=[h for h in _ALL_H if h["name"] not in _API]),
]

def scan_struct_shape(repo):
    doc = vx(os.path.join(repo, U))
    it = find_item(doc, "struct UriBuilder")
    t = re.sub(r"\s+", "", text(doc, it["noattr_start"], it["end"]))
    if t != "pubstructUriBuilder{buf:BytesMut,in_path:bool,}":
        raise Undecided("struct UriBuilder changed shape: " + t)
    return True, "struct UriBuilder { buf: BytesMut, in_path: bool }"

def scan_push_escaped_shape(repo):
    """push_escaped is external_body in the Verus unit: its body must still be the single extend loop over utf8_percent_encode(value, COMPONENT)"""
    doc = vx(os.path.join(repo, U))
    it = find_item(doc, "UriBuilder::push_escaped", kind="fn")
    t = re.sub(r"\s+", "", text(doc, it["body_start"], it["body_end"]))
    want = "{forchunkinutf8_percent_encode(value,COMPONENT){self.buf.extend_from_slice(chunk.as_bytes());}}"
    if t != want:
        raise Undecided("push_escaped changed shape; its assumed Verus contract must be re-established: " + t)
    return True, "push_escaped body is the extend loop over utf8_percent_encode(value, COMPONENT)"

SCANS = [
    dict(name="C07.S.struct_shape", fn=scan_struct_shape, desc="syntactic: struct UriBuilder matches the Verus mirror"),
    dict(name="C07.S.push_escaped_shape", fn=scan_push_escaped_shape, desc="syntactic: push_escaped (external_body in Verus) still has the body the Kani obligations describe"),
]

MUTANTS = [
    dict(name="component_set_loses_ampersand", file=U, **{"from": ".add(b'%').add(b'&').add(b'+')", "to": ".add(b'%').add(b'+')"},
         expect=["C07.K.component_set.membership", "C07.K.macro_set.equal", "C07.K.percent_encode.ascii"]),
    dict(name="macro_set_loses_plus", file=M, **{"from": ".add(b'&').add(b'+').add(b',')", "to": ".add(b'&').add(b',')"},
         expect=["C07.K.macro_set.equal"]),
    dict(name="query_prefix_not_switched", file=U, **{"from": "        self.in_path = false;\n", "to": ""},
         expect=["C07.V.push_query_parameter_raw.post", "C07.K.push_query_parameter_raw"]),
    dict(name="path_param_missing_separator", file=U, **{"from": "        self.buf.extend_from_slice(b\"/\");\n        self.push_escaped(parameter);", "to": "        self.push_escaped(parameter);"},
         expect=["C07.V.push_path_parameter_raw.post", "C07.K.push_path_parameter_raw"]),
    dict(name="empty_list_clears_in_path", file=U, **{"from": "        for value in values {\n            self.push_query_parameter(key, value);\n        }\n    }\n\n    pub fn push_set_query_parameter", "to": "        self.in_path = false;\n        for value in values {\n            self.push_query_parameter(key, value);\n        }\n    }\n\n    pub fn push_set_query_parameter"},
         expect=["C07.V.push_list_query_parameter.post"]),
    dict(name="optional_pushes_absent_value", file=U, **{"from": "        if let Some(value) = value {\n            self.push_query_parameter(key, value);\n        }", "to": "        if let Some(value) = value {\n            self.push_query_parameter(key, value);\n        } else {\n            self.push_query_parameter_raw(key, \"\");\n        }"},
         expect=["C07.V.push_optional_query_parameter.post"]),
    dict(name="query_value_pushed_twice", file=U, **{"from": "        self.buf.extend_from_slice(b\"=\");\n        self.push_escaped(value);", "to": "        self.buf.extend_from_slice(b\"=\");\n        self.push_escaped(value);\n        self.push_escaped(value);"},
         expect=["C07.V.push_query_parameter_raw.post"]),
]

BENIGN = [
    # encoding more than necessary keeps the URI valid and decodes back to the same values
    dict(name="component_set_also_encodes_tilde_and_bang", file=U, **{"from": ".add(b'$').add(b'%').add(b'&').add(b'+').add(b',')", "to": ".add(b'$').add(b'%').add(b'&').add(b'+').add(b',').add(b'~').add(b'!')"}),
    dict(name="in_path_cleared_after_pushing", file=U, **{"from": "        let prefix = if self.in_path { b\"?\" } else { b\"&\" };\n        self.in_path = false;\n\n        self.buf.extend_from_slice(prefix);\n        self.buf.extend_from_slice(key.as_bytes());\n        self.buf.extend_from_slice(b\"=\");\n        self.push_escaped(value);",
         "to": "        let prefix = if self.in_path { b\"?\" } else { b\"&\" };\n\n        self.buf.extend_from_slice(prefix);\n        self.buf.extend_from_slice(key.as_bytes());\n        self.buf.extend_from_slice(b\"=\");\n        self.push_escaped(value);\n        self.in_path = false;"}),
    dict(name="component_set_members_reordered", file=U, **{"from": ".add(b'$').add(b'%').add(b'&').add(b'+').add(b',')", "to": ".add(b',').add(b'+').add(b'&').add(b'%').add(b'$')"}),
    dict(name="optional_helper_uses_match", file=U, **{"from": "        if let Some(value) = value {\n            self.push_query_parameter(key, value);\n        }", "to": "        match value {\n            Some(value) => self.push_query_parameter(key, value),\n            None => {}\n        }"}),
]
