use vstd::prelude::*;
use std::convert::TryFrom;
verus! {
pub struct BoundsError(());
pub struct SafeLong(i64);
pub open spec fn safe_min() -> int { -9007199254740991 }
pub open spec fn safe_max() -> int { 9007199254740991 }
impl SafeLong {
    pub closed spec fn view(&self) -> int { self.0 as int }
    #[verifier::external_body]
    pub fn new(value: i64) -> (r: Result<SafeLong, BoundsError>)
        ensures
            r.is_ok() <==> (safe_min() <= value <= safe_max()),
            r matches Ok(s) ==> s@ == value,
    { unimplemented!() }
}

pub assume_specification<T, E, U, F: FnOnce(T) -> Result<U, E>>[Result::<T, E>::and_then](r: Result<T, E>, f: F) -> (out: Result<U, E>)
    requires r matches Ok(t) ==> f.requires((t,)),
    ensures
        r matches Ok(t) ==> f.ensures((t,), out),
        r matches Err(e) ==> out == Err::<U, E>(e);

impl TryFrom<u64> for SafeLong {
    type Error = BoundsError;

    #[inline]
    fn try_from(n: u64) -> (r: Result<SafeLong, BoundsError>)
        ensures
            r.is_ok() <==> (safe_min() <= n <= safe_max()),
            r matches Ok(s) ==> s@ == n,
    {
        i64::try_from(n)
            .map_err(|_e| BoundsError(()))
            .and_then(SafeLong::new)
    }
}
}
fn main() {}
