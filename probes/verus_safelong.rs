use vstd::prelude::*;
verus! {

pub struct BoundsError(());

pub struct SafeLong(i64);

pub open spec fn safe_min() -> int { -9007199254740991 }
pub open spec fn safe_max() -> int { 9007199254740991 }

impl SafeLong {
    pub closed spec fn view(&self) -> int { self.0 as int }
    pub open spec fn wf(&self) -> bool { safe_min() <= self@ <= safe_max() }

    #[inline]
    pub fn min_value() -> (r: SafeLong)
        ensures r@ == safe_min()
    {
        proof { assert((1i64 << 53) == 9007199254740992i64) by (bit_vector); }
        SafeLong(-(1 << 53) + 1)
    }

    #[inline]
    pub fn max_value() -> (r: SafeLong)
        ensures r@ == safe_max()
    {
        proof { assert((1i64 << 53) == 9007199254740992i64) by (bit_vector); }
        SafeLong((1 << 53) - 1)
    }

    #[inline]
    pub fn new(value: i64) -> (r: Result<SafeLong, BoundsError>)
        ensures
            r.is_ok() <==> (safe_min() <= value <= safe_max()),
            r matches Ok(s) ==> s@ == value,
    {
        if value >= *SafeLong::min_value() && value <= *SafeLong::max_value() {
            Ok(SafeLong(value))
        } else {
            Err(BoundsError(()))
        }
    }
}

impl std::ops::Deref for SafeLong {
    type Target = i64;

    #[inline]
    fn deref(&self) -> (r: &i64)
        ensures *r == self@
    {
        &self.0
    }
}

} // verus!
fn main() {}
