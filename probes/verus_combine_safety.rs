use vstd::prelude::*;
verus! {

#[derive(Clone, PartialEq, Eq)]
pub enum LogSafety { Safe, Unsafe, DoNotLog }

pub enum PrimitiveType { String, Datetime, Integer, Double, Safelong, Binary, Any, Boolean, Uuid, Rid, Bearertoken }

#[verifier::external_body]
pub struct Context { _p: () }

// rank in the chain do-not-log < unsafe < unknown(None) < safe
pub open spec fn rank(a: Option<LogSafety>) -> int {
    match a {
        Some(LogSafety::DoNotLog) => 0,
        Some(LogSafety::Unsafe) => 1,
        None => 2,
        Some(LogSafety::Safe) => 3,
    }
}

impl Context {
    fn primitive_log_safety(&self, primitive: &PrimitiveType) -> (r: Option<LogSafety>)
        ensures r == (if primitive is Bearertoken { Some(LogSafety::DoNotLog) } else { None::<LogSafety> })
    {
        match primitive {
            PrimitiveType::Bearertoken => Some(LogSafety::DoNotLog),
            _ => None,
        }
    }

    fn combine_safety(&self, a: Option<LogSafety>, b: Option<LogSafety>) -> (r: Option<LogSafety>)
        ensures rank(r) == (if rank(a) <= rank(b) { rank(a) } else { rank(b) })
    {
        match (a, b) {
            (Some(LogSafety::DoNotLog), _) | (_, Some(LogSafety::DoNotLog)) => {
                Some(LogSafety::DoNotLog)
            }
            (Some(LogSafety::Unsafe), _) | (_, Some(LogSafety::Unsafe)) => Some(LogSafety::Unsafe),
            (Some(LogSafety::Safe), Some(LogSafety::Safe)) => Some(LogSafety::Safe),
            // nb: we notably do not combine safe + unknown to safe
            (Some(LogSafety::Safe), None) | (None, Some(LogSafety::Safe)) | (None, None) => None,
        }
    }
}

}
fn main() {}
