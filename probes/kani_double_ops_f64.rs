// feasibility probe: module appended to a scratch copy of conjure-object/src/private.rs
#[cfg(kani)]
mod kani_verif {
    use super::*;

    struct Rec { n: usize, w: [u64; 4] }
    impl Hasher for Rec {
        fn finish(&self) -> u64 { 0 }
        fn write(&mut self, bytes: &[u8]) {
            let mut v = 0u64;
            let mut i = 0;
            while i < bytes.len() && i < 8 { v |= (bytes[i] as u64) << (8 * i); i += 1; }
            if self.n < 4 { self.w[self.n] = v; }
            self.n += 1;
        }
        fn write_u64(&mut self, v: u64) { if self.n < 4 { self.w[self.n] = v; } self.n += 1; }
    }

    fn h(v: f64) -> (usize, [u64; 4]) { let mut r = Rec { n: 0, w: [0; 4] }; DoubleOps::hash(&v, &mut r); (r.n, r.w) }

    #[kani::proof]
    fn f64_laws() {
        let a: f64 = kani::any();
        let b: f64 = kani::any();
        let c: f64 = kani::any();
        // reflexive
        assert!(DoubleOps::eq(&a, &a));
        assert!(DoubleOps::cmp(&a, &a) == Ordering::Equal);
        // eq <=> cmp == Equal
        assert!(DoubleOps::eq(&a, &b) == (DoubleOps::cmp(&a, &b) == Ordering::Equal));
        // antisymmetry
        assert!(DoubleOps::cmp(&a, &b) == DoubleOps::cmp(&b, &a).reverse());
        // transitivity
        if DoubleOps::cmp(&a, &b) != Ordering::Greater && DoubleOps::cmp(&b, &c) != Ordering::Greater {
            assert!(DoubleOps::cmp(&a, &c) != Ordering::Greater);
        }
        // NaN greatest
        if a.is_nan() { assert!(DoubleOps::cmp(&a, &b) != Ordering::Less); }
        // hash
        if DoubleOps::eq(&a, &b) { assert!(h(a) == h(b)); }
    }

    #[kani::proof]
    #[kani::unwind(4)]
    fn btreemap_two_entries_eq_cmp() {
        let a0: f64 = kani::any(); let a1: f64 = kani::any();
        let b0: f64 = kani::any(); let b1: f64 = kani::any();
        let mut a = BTreeMap::new(); a.insert(1u8, a0); a.insert(2u8, a1);
        let mut b = BTreeMap::new(); b.insert(1u8, b0); b.insert(2u8, b1);
        assert!(DoubleOps::eq(&a, &a));
        assert!(DoubleOps::eq(&a, &b) == (DoubleOps::cmp(&a, &b) == Ordering::Equal));
        assert!(DoubleOps::cmp(&a, &b) == DoubleOps::cmp(&b, &a).reverse());
    }

    #[kani::proof]
    #[kani::unwind(4)]
    fn vec_two_eq_cmp_hash() {
        let a: Vec<f64> = vec![kani::any(), kani::any()];
        let b: Vec<f64> = vec![kani::any(), kani::any()];
        assert!(DoubleOps::eq(&a, &a));
        assert!(DoubleOps::eq(&a, &b) == (DoubleOps::cmp(&a, &b) == Ordering::Equal));
        assert!(DoubleOps::cmp(&a, &b) == DoubleOps::cmp(&b, &a).reverse());
        if DoubleOps::eq(&a, &b) {
            let mut r1 = Rec { n: 0, w: [0; 4] }; DoubleOps::hash(&a, &mut r1);
            let mut r2 = Rec { n: 0, w: [0; 4] }; DoubleOps::hash(&b, &mut r2);
            assert!(r1.n == r2.n && r1.w == r2.w);
        }
    }
}
