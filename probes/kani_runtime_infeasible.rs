// feasibility probe: module appended to a scratch copy of conjure-http/src/server/runtime.rs
#[cfg(kani)]
mod kani_verif {
    use super::*;
    use http::HeaderValue;

    #[kani::proof]
    #[kani::unwind(40)]
    fn accept_concrete_choice() {
        let runtime = ConjureRuntime::builder().encoding(JsonEncoding).encoding(SmileEncoding).build();
        let mut headers = HeaderMap::new();
        let which: u8 = kani::any();
        let s = match which % 3 {
            0 => "*/*, application/json; q=0",
            1 => "application/json; q=0.5, application/x-jackson-smile",
            _ => "application/*; q=0.2",
        };
        headers.insert(ACCEPT, HeaderValue::from_static(s));
        let r = runtime.response_body_encoding(&headers);
        match r {
            Ok(e) => {
                let ct = e.content_type();
                if which % 3 == 2 { assert!(ct == "application/json"); } else { assert!(ct == "application/x-jackson-smile"); }
            }
            Err(_) => assert!(false),
        }
    }
}
