use vstd::prelude::*;
verus! {

#[verifier::external_body]
pub struct Bytes { _p: () }
#[verifier::external_body]
pub struct BytesMut { _p: () }
#[verifier::external_body]
pub struct Uri { _p: () }
#[verifier::external_body]
#[derive(Debug)]
pub struct InvalidUri { _p: () }

impl Bytes { pub uninterp spec fn view(&self) -> Seq<u8>; }
impl BytesMut {
    pub uninterp spec fn view(&self) -> Seq<u8>;
    #[verifier::external_body]
    pub fn freeze(self) -> (r: Bytes) ensures r@ == self@ { unimplemented!() }
}
pub uninterp spec fn valid_uri_text(s: Seq<u8>) -> bool;
impl Uri {
    // assumed contract of http::Uri::from_maybe_shared (http 1.x: MAX_LEN = u16::MAX - 1)
    #[verifier::external_body]
    pub fn from_maybe_shared(src: Bytes) -> (r: Result<Uri, InvalidUri>)
        ensures r.is_ok() <==> (src@.len() <= 65534 && valid_uri_text(src@))
    { unimplemented!() }
}

pub struct UriBuilder {
    buf: BytesMut,
    in_path: bool,
}

impl UriBuilder {
    pub closed spec fn bytes(&self) -> Seq<u8> { self.buf@ }

    pub fn build(self) -> Uri
        requires valid_uri_text(self.bytes())
    {
        Uri::from_maybe_shared(self.buf.freeze()).unwrap()
    }
}

}
fn main() {}
