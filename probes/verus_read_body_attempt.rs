use vstd::prelude::*;
verus! {

#[verifier::external_body]
pub struct Error { _p: () }
#[verifier::external_body]
pub struct InvalidArgument { _p: () }
impl InvalidArgument {
    #[verifier::external_body]
    pub fn new() -> InvalidArgument { unimplemented!() }
}
impl Error {
    #[verifier::external_body]
    pub fn service_safe(cause: &str, t: InvalidArgument) -> Error { unimplemented!() }
}

#[verifier::external_body]
pub struct Bytes { _p: () }
impl Bytes {
    pub uninterp spec fn view(&self) -> Seq<u8>;
    #[verifier::external_body]
    pub fn new() -> (r: Bytes) ensures r@ == Seq::<u8>::empty() { unimplemented!() }
    #[verifier::external_body]
    pub fn len(&self) -> (r: usize) ensures r == self@.len() { unimplemented!() }
}

fn check_limit(buf: &[u8], limit: Option<usize>) -> (r: Result<(), Error>)
    ensures r.is_ok() <==> (limit matches Some(l) ==> buf@.len() <= l)
{
    let limit = match limit {
        Some(limit) => limit,
        None => return Ok(()),
    };

    if buf.len() > limit {
        return Err(Error::service_safe(
            "body too large",
            InvalidArgument::new(),
        ));
    }

    Ok(())
}


pub assume_specification<T, E>[Option::<Result<T, E>>::transpose](o: Option<Result<T, E>>) -> (r: Result<Option<T>, E>)
    ensures
        o matches Some(Ok(t)) ==> r == Ok::<Option<T>, E>(Some(t)),
        o matches Some(Err(e)) ==> r == Err::<Option<T>, E>(e),
        o is None ==> r == Ok::<Option<T>, E>(None);

#[verifier::external_body]
pub struct BytesMut { _p: () }
impl BytesMut {
    pub uninterp spec fn view(&self) -> Seq<u8>;
    #[verifier::external_body]
    pub fn new() -> (r: BytesMut) ensures r@ == Seq::<u8>::empty() { unimplemented!() }
    #[verifier::external_body]
    pub fn reserve(&mut self, n: usize) ensures final(self)@ == old(self)@ { unimplemented!() }
    #[verifier::external_body]
    pub fn extend_from_slice(&mut self, s: &Bytes) ensures final(self)@ == old(self)@ + s@ { unimplemented!() }
    #[verifier::external_body]
    pub fn freeze(self) -> (r: Bytes) ensures r@ == self@ { unimplemented!() }
    #[verifier::external_body]
    pub fn as_slice(&self) -> (r: &[u8]) ensures r@ == self@ { unimplemented!() }
}

pub fn read_body<I>(mut body: I, limit: Option<usize>) -> Result<Bytes, Error>
where
    I: Iterator<Item = Result<Bytes, Error>>,
{
    let first = match body.next().transpose()? {
        Some(bytes) => bytes,
        None => return Ok(Bytes::new()),
    };

    let mut buf = BytesMut::new();
    match body.next().transpose()? {
        Some(second) => {
            buf.reserve(first.len() + second.len());
            buf.extend_from_slice(&first);
            buf.extend_from_slice(&second);
        }
        None => return Ok(first),
    };

    for bytes in body {
        buf.extend_from_slice(&bytes?);
    }

    Ok(buf.freeze())
}

}
fn main() {}
