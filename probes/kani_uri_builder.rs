// feasibility probe: module appended to a scratch copy of conjure-http/src/private/client/uri_builder.rs
#[cfg(kani)]
mod kani_verif {
    use super::*;

    fn unreserved(b: u8) -> bool {
        matches!(b, b'A'..=b'Z' | b'a'..=b'z' | b'0'..=b'9' | b'-' | b'.' | b'_' | b'~' | b'!' | b'*' | b'\'' | b'(' | b')')
    }

    fn hex(n: u8) -> u8 { if n < 10 { b'0' + n } else { b'A' + (n - 10) } }

    #[kani::proof]
    #[kani::unwind(8)]
    fn component_set_exact() {
        let b: u8 = kani::any();
        kani::assume(b < 128);
        let arr = [b];
        let s = std::str::from_utf8(&arr).unwrap();
        let mut ub = UriBuilder::new();
        ub.push_escaped(s);
        let out = &ub.buf[..];
        if unreserved(b) {
            assert!(out.len() == 1 && out[0] == b);
        } else {
            assert!(out.len() == 3 && out[0] == b'%' && out[1] == hex(b >> 4) && out[2] == hex(b & 15));
        }
    }

    #[kani::proof]
    #[kani::unwind(8)]
    fn push_escaped_bytes_len2() {
        let bytes: [u8; 2] = kani::any();
        let len: usize = kani::any();
        kani::assume(len <= 2);
        if let Ok(s) = std::str::from_utf8(&bytes[..len]) {
            let mut b = UriBuilder::new();
            b.push_escaped(s);
            let out = &b.buf[..];
            let mut i = 0;
            while i < out.len() {
                let c = out[i];
                assert!(unreserved(c) || c == b'%');
                i += 1;
            }
        }
    }

    #[kani::proof]
    #[kani::unwind(6)]
    fn component_set_exact_direct() {
        let b: u8 = kani::any();
        kani::assume(b < 128);
        let arr = [b];
        let s = std::str::from_utf8(&arr).unwrap();
        let mut out = [0u8; 3];
        let mut n = 0;
        for chunk in utf8_percent_encode(s, COMPONENT) {
            let cb = chunk.as_bytes();
            let mut j = 0;
            while j < cb.len() { assert!(n < 3); out[n] = cb[j]; n += 1; j += 1; }
        }
        if unreserved(b) {
            assert!(n == 1 && out[0] == b);
        } else {
            assert!(n == 3 && out[0] == b'%' && out[1] == hex(b >> 4) && out[2] == hex(b & 15));
        }
    }

    #[kani::proof]
    #[kani::unwind(10)]
    fn builder_structure_path_then_two_queries() {
        let v: [u8; 3] = kani::any();
        kani::assume(v[0] < 128 && v[1] < 128 && v[2] < 128);
        let a0 = [v[0]]; let a1 = [v[1]]; let a2 = [v[2]];
        let s0 = std::str::from_utf8(&a0).unwrap();
        let s1 = std::str::from_utf8(&a1).unwrap();
        let s2 = std::str::from_utf8(&a2).unwrap();
        let mut b = UriBuilder::new();
        b.push_path_parameter_raw(s0);
        b.push_query_parameter_raw("k", s1);
        b.push_query_parameter_raw("k", s2);
        let out = &b.buf[..];
        let mut slashes = 0; let mut qs = 0; let mut amps = 0; let mut eqs = 0; let mut hashes = 0;
        let mut i = 0;
        while i < out.len() {
            match out[i] { b'/' => slashes += 1, b'?' => qs += 1, b'&' => amps += 1, b'=' => eqs += 1, b'#' => hashes += 1, _ => {} }
            i += 1;
        }
        assert!(slashes == 1 && qs == 1 && amps == 1 && eqs == 2 && hashes == 0);
        assert!(out[0] == b'/');
    }

    #[kani::proof]
    #[kani::unwind(8)]
    fn query_push_single_call_contract() {
        let b: u8 = kani::any();
        kani::assume(b < 128);
        let arr = [b];
        let sv = std::str::from_utf8(&arr).unwrap();
        let in_path: bool = kani::any();
        let mut ub = UriBuilder { buf: BytesMut::new(), in_path };
        ub.push_query_parameter_raw("k", sv);
        let out = &ub.buf[..];
        assert!(!ub.in_path);
        assert!(out[0] == if in_path { b'?' } else { b'&' });
        assert!(out[1] == b'k' && out[2] == b'=');
        if unreserved(b) { assert!(out.len() == 4 && out[3] == b); }
        else { assert!(out.len() == 6 && out[3] == b'%' && out[4] == hex(b >> 4) && out[5] == hex(b & 15)); }
    }
}
