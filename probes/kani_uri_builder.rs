// feasibility probe: module appended to a scratch copy of conjure-http/src/private/client/uri_builder.rs
#[cfg(kani)]
mod kani_verif {
    use super::*;

    fn unreserved(b: u8) -> bool {
        matches!(b, b'A'..=b'Z' | b'a'..=b'z' | b'0'..=b'9' | b'-' | b'.' | b'_' | b'~' | b'!' | b'*' | b'\'' | b'(' | b')')
    }

    fn hex(n: u8) -> u8 { if n < 10 { b'0' + n } else { b'A' + (n - 10) } }

    #[kani::proof]
    #[kani::unwind(8)]
    fn component_set_exact() {
        let b: u8 = kani::any();
        kani::assume(b < 128);
        let arr = [b];
        let s = std::str::from_utf8(&arr).unwrap();
        let mut ub = UriBuilder::new();
        ub.push_escaped(s);
        let out = &ub.buf[..];
        if unreserved(b) {
            assert!(out.len() == 1 && out[0] == b);
        } else {
            assert!(out.len() == 3 && out[0] == b'%' && out[1] == hex(b >> 4) && out[2] == hex(b & 15));
        }
    }

    #[kani::proof]
    #[kani::unwind(8)]
    fn push_escaped_bytes_len2() {
        let bytes: [u8; 2] = kani::any();
        let len: usize = kani::any();
        kani::assume(len <= 2);
        if let Ok(s) = std::str::from_utf8(&bytes[..len]) {
            let mut b = UriBuilder::new();
            b.push_escaped(s);
            let out = &b.buf[..];
            let mut i = 0;
            while i < out.len() {
                let c = out[i];
                assert!(unreserved(c) || c == b'%');
                i += 1;
            }
        }
    }
}
