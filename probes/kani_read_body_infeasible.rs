// feasibility probe: module appended to a scratch copy of conjure-http/src/private/mod.rs
#[cfg(kani)]
mod kani_verif {
    use super::*;

    static mut ERR_EXPECTED: bool = false;

    // abstract stand-in for conjure_error::Error::service_safe: an error may only be raised when the ghost flag allows it;
    // the path ends here (the Error value itself is opaque to this proof)
    fn service_safe_stub<E, T>(_cause: E, _ty: T) -> Error {
        unsafe { assert!(ERR_EXPECTED, "error raised although body within limit"); }
        kani::assume(false);
        unreachable!()
    }

    struct Chunks { data: [[u8; 2]; 3], lens: [usize; 3], n: usize, i: usize }
    impl Iterator for Chunks {
        type Item = Result<Bytes, Error>;
        fn next(&mut self) -> Option<Self::Item> {
            if self.i >= self.n { return None; }
            let k = self.i;
            self.i += 1;
            Some(Ok(Bytes::from_static(match k { 0 => b"a", 1 => b"b", _ => b"c" })))
        }
    }

    #[kani::proof]
    #[kani::stub(conjure_error::Error::service_safe, service_safe_stub)]
    #[kani::unwind(5)]
    fn read_body_concat_and_limit() {
        let data: [[u8; 2]; 3] = [[b'a', 0], [b'b', 0], [b'c', 0]];
        let lens: [usize; 3] = kani::any();
        let n: usize = kani::any();
        kani::assume(n <= 3);
        kani::assume(lens[0] == 1 && lens[1] == 1 && lens[2] == 1);
        let limit: usize = kani::any();
        let has_limit: bool = kani::any();
        let mut total = 0;
        let mut k = 0;
        while k < n { total += lens[k]; k += 1; }
        unsafe { ERR_EXPECTED = has_limit && total > limit; }
        let r = read_body(Chunks { data, lens, n, i: 0 }, if has_limit { Some(limit) } else { None });
        match r {
            Ok(b) => {
                assert!(!(has_limit && total > limit));
                assert!(b.len() == total);
                let mut pos = 0;
                let mut k = 0;
                while k < n {
                    let mut j = 0;
                    while j < lens[k] { assert!(b[pos] == data[k][j]); pos += 1; j += 1; }
                    k += 1;
                }
            }
            Err(_) => assert!(false, "unreachable: stub diverges"),
        }
    }
}
