// feasibility probe (verified in 4.4 s): module appended to a scratch copy of conjure-serde/src/de/unknown_fields_behavior.rs
#[cfg(kani)]
mod kani_verif {
    use super::*;
    use serde::de::{self, Deserialize, IgnoredAny};
    use std::fmt;

    #[derive(Debug, PartialEq)]
    enum MockErr { Other, UnknownField([u8; 2], usize) }
    impl fmt::Display for MockErr { fn fmt(&self, _: &mut fmt::Formatter<'_>) -> fmt::Result { Ok(()) } }
    impl std::error::Error for MockErr {}
    impl de::Error for MockErr {
        fn custom<T: fmt::Display>(_: T) -> Self { MockErr::Other }
        fn unknown_field(field: &str, _expected: &'static [&'static str]) -> Self {
            let b = field.as_bytes();
            let mut a = [0u8; 2];
            if b.len() > 0 { a[0] = b[0]; }
            if b.len() > 1 { a[1] = b[1]; }
            MockErr::UnknownField(a, b.len())
        }
    }

    enum PlainB {}
    impl Behavior for PlainB { type KeyBehavior = PlainB; }

    // scalar event sources
    struct StrDe<'a>(&'a str);
    impl<'de, 'a> Deserializer<'de> for StrDe<'a> {
        type Error = MockErr;
        fn deserialize_any<V: Visitor<'de>>(self, v: V) -> Result<V::Value, MockErr> { v.visit_str(self.0) }
        serde::forward_to_deserialize_any! { bool i8 i16 i32 i64 i128 u8 u16 u32 u64 u128 f32 f64 char str string bytes byte_buf option unit unit_struct newtype_struct seq tuple tuple_struct map struct enum identifier ignored_any }
    }
    struct BoolDe(bool);
    impl<'de> Deserializer<'de> for BoolDe {
        type Error = MockErr;
        fn deserialize_any<V: Visitor<'de>>(self, v: V) -> Result<V::Value, MockErr> { v.visit_bool(self.0) }
        serde::forward_to_deserialize_any! { bool i8 i16 i32 i64 i128 u8 u16 u32 u64 u128 f32 f64 char str string bytes byte_buf option unit unit_struct newtype_struct seq tuple tuple_struct map struct enum identifier ignored_any }
    }

    // a scripted object { <k0>: bool, <k1>: bool }
    struct ScriptMap<'a> { keys: [&'a str; 2], vals: [bool; 2], i: usize }
    impl<'de, 'a> MapAccess<'de> for ScriptMap<'a> {
        type Error = MockErr;
        fn next_key_seed<K: DeserializeSeed<'de>>(&mut self, seed: K) -> Result<Option<K::Value>, MockErr> {
            if self.i >= 2 { return Ok(None); }
            seed.deserialize(StrDe(self.keys[self.i])).map(Some)
        }
        fn next_value_seed<S: DeserializeSeed<'de>>(&mut self, seed: S) -> Result<S::Value, MockErr> {
            let k = self.i; self.i += 1;
            seed.deserialize(BoolDe(self.vals[k]))
        }
    }
    struct Script<'a> { keys: [&'a str; 2], vals: [bool; 2] }
    impl<'de, 'a> Deserializer<'de> for Script<'a> {
        type Error = MockErr;
        fn deserialize_any<V: Visitor<'de>>(self, v: V) -> Result<V::Value, MockErr> {
            v.visit_map(ScriptMap { keys: self.keys, vals: self.vals, i: 0 })
        }
        serde::forward_to_deserialize_any! { bool i8 i16 i32 i64 i128 u8 u16 u32 u64 u128 f32 f64 char str string bytes byte_buf option unit unit_struct newtype_struct seq tuple tuple_struct map struct enum identifier ignored_any }
    }

    // what a derived Deserialize for `struct S { a: bool }` does
    enum Field { A, Ignore }
    impl<'de> Deserialize<'de> for Field {
        fn deserialize<D: Deserializer<'de>>(d: D) -> Result<Field, D::Error> {
            struct FV;
            impl<'de> Visitor<'de> for FV {
                type Value = Field;
                fn expecting(&self, f: &mut fmt::Formatter) -> fmt::Result { f.write_str("field") }
                fn visit_str<E: de::Error>(self, v: &str) -> Result<Field, E> { if v == "a" { Ok(Field::A) } else { Ok(Field::Ignore) } }
            }
            d.deserialize_identifier(FV)
        }
    }
    struct SV;
    impl<'de> Visitor<'de> for SV {
        type Value = Option<bool>;
        fn expecting(&self, f: &mut fmt::Formatter) -> fmt::Result { f.write_str("S") }
        fn visit_map<A: MapAccess<'de>>(self, mut map: A) -> Result<Option<bool>, A::Error> {
            let mut a = None;
            let mut n = 0;
            while n < 3 {
                match map.next_key::<Field>()? {
                    Some(Field::A) => { a = Some(map.next_value::<bool>()?); }
                    Some(Field::Ignore) => { map.next_value::<IgnoredAny>()?; }
                    None => break,
                }
                n += 1;
            }
            Ok(a)
        }
    }

    #[kani::proof]
    #[kani::unwind(5)]
    fn strict_rejects_unknown_field_naming_it_and_accepts_known() {
        let v0: bool = kani::any();
        let v1: bool = kani::any();
        let second_known: bool = kani::any();
        let keys = if second_known { ["a", "a"] } else { ["a", "zq"] };
        let r = <UnknownFieldsBehavior<PlainB> as Behavior>::deserialize_struct(Script { keys, vals: [v0, v1] }, "S", &["a"], SV);
        if second_known {
            assert!(r == Ok(Some(v1)));
        } else {
            assert!(r == Err(MockErr::UnknownField([b'z', b'q'], 2)));
        }
        // the lenient behaviour (what the client uses) ignores the field
        let r2 = <PlainB as Behavior>::deserialize_struct(Script { keys, vals: [v0, v1] }, "S", &["a"], SV);
        assert!(r2 == Ok(Some(if second_known { v1 } else { v0 })));
    }
}
