// feasibility probe: module appended to a scratch copy of conjure-object/src/any/de.rs
#[cfg(kani)]
mod kani_verif {
    use super::*;

    #[kani::proof]
    #[kani::unwind(4)]
    fn seq_deserializer_step() {
        let a: u8 = kani::any();
        let b: u8 = kani::any();
        let mut d = SeqDeserializer(vec![Any(Inner::U8(a)), Any(Inner::U8(b))].into_iter());
        let x: Option<u8> = SeqAccess::next_element(&mut d).unwrap();
        let y: Option<u8> = SeqAccess::next_element(&mut d).unwrap();
        let z: Option<u8> = SeqAccess::next_element(&mut d).unwrap();
        assert!(x == Some(a) && y == Some(b) && z.is_none());
        std::mem::forget(d);
    }

    #[kani::proof]
    #[kani::unwind(4)]
    fn vec_u8_via_any_forget() {
        let a: u8 = kani::any();
        let b: u8 = kani::any();
        let any = Any(Inner::Seq(vec![Any(Inner::U8(a)), Any(Inner::U8(b))]));
        let v: Vec<u8> = Vec::<u8>::deserialize(any).unwrap();
        assert!(v.len() == 2 && v[0] == a && v[1] == b);
        std::mem::forget(v);
    }
}
