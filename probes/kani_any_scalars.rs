// feasibility probe: module appended to a scratch copy of conjure-object/src/any/mod.rs
#[cfg(kani)]
mod kani_verif {
    use super::*;

    #[kani::proof]
    fn i64_roundtrip() {
        let v: i64 = kani::any();
        let a = Any::new(v).unwrap();
        let back: i64 = a.deserialize_into().unwrap();
        assert!(back == v);
    }

    #[kani::proof]
    fn i128_roundtrip() {
        let v: i128 = kani::any();
        let a = Any::new(v).unwrap();
        match a.deserialize_into::<i128>() {
            Ok(back) => assert!(back == v),
            Err(_) => assert!(false, "i128 stored in Any cannot be read back"),
        }
    }

    #[kani::proof]
    fn f64_roundtrip() {
        let v: f64 = kani::any();
        let a = Any::new(v).unwrap();
        let back: f64 = a.deserialize_into().unwrap();
        assert!(back.to_bits() == v.to_bits());
    }

    #[kani::proof]
    #[kani::unwind(5)]
    fn string_roundtrip_len2() {
        let bytes: [u8; 2] = kani::any();
        let len: usize = kani::any();
        kani::assume(len <= 2);
        if let Ok(st) = std::str::from_utf8(&bytes[..len]) {
            let a = Any::new(st).unwrap();
            let back: String = a.deserialize_into().unwrap();
            assert!(back.as_bytes() == st.as_bytes());
        }
    }

    #[kani::proof]
    #[kani::unwind(5)]
    fn vec_u8_roundtrip_len2() {
        let a0: u8 = kani::any();
        let a1: u8 = kani::any();
        let v = vec![a0, a1];
        let a = Any::new(&v).unwrap();
        let back: Vec<u8> = a.deserialize_into().unwrap();
        assert!(back == v);
    }

    #[kani::proof]
    #[kani::unwind(5)]
    fn map_one_entry_i32_key() {
        let k: i32 = kani::any();
        let val: bool = kani::any();
        let mut m = std::collections::BTreeMap::new();
        m.insert(k, val);
        let a = Any::new(&m).unwrap();
        let back: std::collections::BTreeMap<i32, bool> = a.deserialize_into().unwrap();
        assert!(back == m);
    }
}
