// feasibility probe: module appended to a scratch copy of conjure-object/src/any/mod.rs
#[cfg(kani)]
mod kani_verif {
    use super::*;

    #[kani::proof]
    fn i64_roundtrip() {
        let v: i64 = kani::any();
        let a = Any::new(v).unwrap();
        let back: i64 = a.deserialize_into().unwrap();
        assert!(back == v);
    }

    #[kani::proof]
    fn i128_roundtrip() {
        let v: i128 = kani::any();
        let a = Any::new(v).unwrap();
        match a.deserialize_into::<i128>() {
            Ok(back) => assert!(back == v),
            Err(_) => assert!(false, "i128 stored in Any cannot be read back"),
        }
    }

    #[kani::proof]
    fn f64_roundtrip() {
        let v: f64 = kani::any();
        let a = Any::new(v).unwrap();
        let back: f64 = a.deserialize_into().unwrap();
        assert!(back.to_bits() == v.to_bits());
    }
}
