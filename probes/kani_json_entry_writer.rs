// feasibility probe: module appended to a scratch copy of conjure-serde/src/json/ser.rs
#[cfg(kani)]
mod kani_verif {
    use super::*;
    use serde::Serializer as _;

    #[kani::proof]
    #[kani::unwind(12)]
    fn entry_serialize_f64_applies_value_behavior() {
        let mut buf = Vec::new();
        let which: u8 = kani::any();
        let v = match which % 3 { 0 => f64::NAN, 1 => f64::INFINITY, _ => f64::NEG_INFINITY };
        (&mut Serializer::new(&mut buf)).serialize_f64(v).unwrap();
        match which % 3 {
            0 => assert!(&buf[..] == b"\"NaN\""),
            1 => assert!(&buf[..] == b"\"Infinity\""),
            _ => assert!(&buf[..] == b"\"-Infinity\""),
        }
    }
}
