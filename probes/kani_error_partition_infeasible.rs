// feasibility probe: module appended to a scratch copy of conjure-error/src/error.rs
#[cfg(kani)]
mod kani_verif {
    use super::*;
    use crate::ErrorCode;

    fn no_bt() -> backtrace::Backtrace { backtrace::Backtrace::disabled() }

    #[kani::proof]
    #[kani::stub(std::backtrace::Backtrace::force_capture, no_bt)]
    #[kani::unwind(8)]
    fn partition_by_safe_args() {
        let err = SerializableError::builder()
            .error_code(ErrorCode::Internal)
            .error_name("N:E")
            .error_instance_id(conjure_object::Uuid::nil())
            .insert_parameters("a", "1")
            .insert_parameters("b", "2")
            .build();
        let a_safe: bool = kani::any();
        let b_safe: bool = kani::any();
        let safe: &[&str] = match (a_safe, b_safe) {
            (true, true) => &["a", "b"],
            (true, false) => &["a"],
            (false, true) => &["b"],
            (false, false) => &[],
        };
        let cause: Box<dyn error::Error + Sync + Send> = "x".into();
        let e = Error::service_inner(cause, false, err, safe);
        assert!(e.0.safe_params.contains_key("a") == a_safe);
        assert!(e.0.unsafe_params.contains_key("a") == !a_safe);
        assert!(e.0.safe_params.contains_key("b") == b_safe);
        assert!(e.0.unsafe_params.contains_key("b") == !b_safe);
        assert!(e.0.safe_params.len() + e.0.unsafe_params.len() == 2);
    }
}
