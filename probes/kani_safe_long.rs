// feasibility probe: module appended to a scratch copy of conjure-object/src/safe_long.rs
#[cfg(kani)]
mod kani_verif {
    use super::*;
    const MAX: i64 = 9007199254740991;

    impl kani::Arbitrary for SafeLong {
        fn any() -> Self { let v: i64 = kani::any(); kani::assume(v >= -MAX && v <= MAX); SafeLong(v) }
    }
    impl kani::Arbitrary for BoundsError {
        fn any() -> Self { BoundsError(()) }
    }

    #[kani::proof_for_contract(SafeLong::new)]
    fn new_contract() {
        let _ = SafeLong::new(kani::any());
    }

    #[kani::proof]
    #[kani::stub_verified(SafeLong::new)]
    fn try_from_i128() {
        let v: i128 = kani::any();
        match SafeLong::try_from(v) {
            Ok(s) => { assert!(s.0 as i128 == v); assert!(s.0 >= -MAX && s.0 <= MAX); }
            Err(_) => assert!(v < -(MAX as i128) || v > MAX as i128),
        }
    }

    #[derive(Debug)]
    struct MockErr;
    impl fmt::Display for MockErr { fn fmt(&self, _: &mut fmt::Formatter<'_>) -> fmt::Result { Ok(()) } }
    impl Error for MockErr {}
    impl de::Error for MockErr { fn custom<T: fmt::Display>(_: T) -> Self { MockErr } }
    struct I64De(i64);
    impl<'de> de::Deserializer<'de> for I64De {
        type Error = MockErr;
        fn deserialize_any<V: de::Visitor<'de>>(self, v: V) -> Result<V::Value, Self::Error> { v.visit_i64(self.0) }
        serde::forward_to_deserialize_any! { bool i8 i16 i32 i64 i128 u8 u16 u32 u64 u128 f32 f64 char str string bytes byte_buf option unit unit_struct newtype_struct seq tuple tuple_struct map struct enum identifier ignored_any }
    }

    #[kani::proof]
    fn deserialize_i64_route() {
        let v: i64 = kani::any();
        match <SafeLong as de::Deserialize>::deserialize(I64De(v)) {
            Ok(s) => { assert!(s.0 == v); assert!(v >= -MAX && v <= MAX); }
            Err(_) => assert!(v < -MAX || v > MAX),
        }
    }
}
