// feasibility probe: module appended to a scratch copy of conjure-serde/src/json/de/client.rs
#[cfg(kani)]
mod kani_verif {
    use super::*;

    #[kani::proof]
    #[kani::unwind(12)]
    fn entry_deserialize_f64_nan_string() {
        let v: f64 = client_from_str("\"NaN\"").unwrap();
        assert!(v.is_nan());
    }
}
