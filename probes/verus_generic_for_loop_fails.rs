use vstd::prelude::*;
use vstd::std_specs::iter::IteratorSpec;
verus! {

#[verifier::loop_isolation(false)]
pub fn a<I>(body: I)
where
    I: Iterator<Item = u8>,
    requires body.obeys_prophetic_iter_laws(), body.will_return_none(), body.decrease() is Some,
{
    for x in body {}
}

pub fn b<I>(body: I) -> (n: usize)
where
    I: Iterator<Item = u8>,
    requires body.obeys_prophetic_iter_laws(), body.will_return_none(), body.decrease() is Some, body.remaining().len() < 100,
    ensures n == body.remaining().len(),
{
    let mut n = 0usize;
    for x in it: body
        invariant n == it.index(), it.seq() == body.remaining(), it.seq().len() < 100
    {
        n += 1;
    }
    n
}

}
fn main() {}
