// feasibility probe: module appended to a scratch copy of conjure-object/src/bearer_token/mod.rs
#[cfg(kani)]
mod kani_verif {
    use super::*;

    fn spec_valid_char(b: u8) -> bool {
        matches!(b, b'A'..=b'Z' | b'a'..=b'z' | b'0'..=b'9' | b'-' | b'.' | b'_' | b'~' | b'+' | b'/')
    }

    #[kani::proof]
    fn valid_char_matches_spec() {
        let b: u8 = kani::any();
        assert!(valid_char(b) == spec_valid_char(b));
    }

    // spec: ^[A-Za-z0-9\-._~+/]+=*$
    fn spec_valid(s: &[u8]) -> bool {
        let mut i = 0;
        while i < s.len() && spec_valid_char(s[i]) { i += 1; }
        if i == 0 { return false; }
        while i < s.len() && s[i] == b'=' { i += 1; }
        i == s.len()
    }

    #[kani::proof]
    #[kani::unwind(6)]
    fn is_valid_matches_spec_len4() {
        let bytes: [u8; 4] = kani::any();
        let len: usize = kani::any();
        kani::assume(len <= 4);
        let sl = &bytes[..len];
        if let Ok(s) = std::str::from_utf8(sl) {
            assert!(is_valid(s) == spec_valid(sl));
        }
    }
}
