// feasibility probe (no answer in 10 min): module appended to a scratch copy of conjure-object/src/plain.rs
#[cfg(kani)]
mod kani_verif {
    use super::*;

    #[kani::proof]
    #[kani::unwind(14)]
    fn i32_roundtrip() {
        let v: i32 = kani::any();
        let s = v.to_plain();
        let back = i32::from_plain(&s);
        assert!(back == Ok(v));
    }

    #[kani::proof]
    #[kani::unwind(40)]
    fn uuid_roundtrip() {
        let v: u128 = kani::any();
        let u = Uuid::from_u128(v);
        let s = u.to_plain();
        let back = Uuid::from_plain(&s);
        assert!(back == Ok(u));
    }

    #[kani::proof]
    #[kani::unwind(12)]
    fn f64_nonfinite_roundtrip() {
        let which: u8 = kani::any();
        let v = match which % 3 { 0 => f64::NAN, 1 => f64::INFINITY, _ => f64::NEG_INFINITY };
        let s = v.to_plain();
        match which % 3 {
            0 => assert!(s == "NaN"),
            1 => assert!(s == "Infinity"),
            _ => assert!(s == "-Infinity"),
        }
        let back = f64::from_plain(&s).unwrap();
        assert!(back.to_bits() == v.to_bits() || (back.is_nan() && v.is_nan()));
    }
}
