// feasibility probe: module appended to a scratch copy of conjure-serde/src/ser.rs
#[cfg(kani)]
mod kani_verif {
    use super::*;
    use serde::ser::Impossible;

    // ghost log of scalar events seen by the innermost mock serializer
    #[derive(Clone, Copy, PartialEq)]
    enum Ev { None, F64Hook, F64Raw, BoolHook, BoolRaw }
    static mut LAST: Ev = Ev::None;

    #[derive(Debug)]
    struct E;
    impl std::fmt::Display for E { fn fmt(&self, _: &mut std::fmt::Formatter<'_>) -> std::fmt::Result { Ok(()) } }
    impl std::error::Error for E {}
    impl serde::ser::Error for E { fn custom<T: std::fmt::Display>(_: T) -> Self { E } }

    // behaviour under test: marks that the hook ran
    enum VB {}
    enum KB {}
    impl Behavior for VB {
        type KeyBehavior = KB;
        fn serialize_f64<S: Serializer>(ser: S, _v: f64) -> Result<S::Ok, S::Error> { unsafe { LAST = Ev::F64Hook; } ser.serialize_unit() }
    }
    impl Behavior for KB {
        type KeyBehavior = KB;
        fn serialize_bool<S: Serializer>(ser: S, _v: bool) -> Result<S::Ok, S::Error> { unsafe { LAST = Ev::BoolHook; } ser.serialize_unit() }
    }

    // innermost scalar sink
    struct Sink;
    impl Serializer for Sink {
        type Ok = (); type Error = E;
        type SerializeSeq = Impossible<(), E>; type SerializeTuple = Impossible<(), E>;
        type SerializeTupleStruct = Impossible<(), E>; type SerializeTupleVariant = Impossible<(), E>;
        type SerializeMap = Impossible<(), E>; type SerializeStruct = Impossible<(), E>;
        type SerializeStructVariant = Impossible<(), E>;
        fn serialize_bool(self, _: bool) -> Result<(), E> { unsafe { LAST = Ev::BoolRaw; } Ok(()) }
        fn serialize_f64(self, _: f64) -> Result<(), E> { unsafe { LAST = Ev::F64Raw; } Ok(()) }
        fn serialize_unit(self) -> Result<(), E> { Ok(()) }
        fn serialize_i8(self, _: i8) -> Result<(), E> { Err(E) } fn serialize_i16(self, _: i16) -> Result<(), E> { Err(E) }
        fn serialize_i32(self, _: i32) -> Result<(), E> { Err(E) } fn serialize_i64(self, _: i64) -> Result<(), E> { Err(E) }
        fn serialize_u8(self, _: u8) -> Result<(), E> { Err(E) } fn serialize_u16(self, _: u16) -> Result<(), E> { Err(E) }
        fn serialize_u32(self, _: u32) -> Result<(), E> { Err(E) } fn serialize_u64(self, _: u64) -> Result<(), E> { Err(E) }
        fn serialize_f32(self, _: f32) -> Result<(), E> { Err(E) } fn serialize_char(self, _: char) -> Result<(), E> { Err(E) }
        fn serialize_str(self, _: &str) -> Result<(), E> { Err(E) } fn serialize_bytes(self, _: &[u8]) -> Result<(), E> { Err(E) }
        fn serialize_none(self) -> Result<(), E> { Err(E) }
        fn serialize_some<T: ?Sized + Serialize>(self, _: &T) -> Result<(), E> { Err(E) }
        fn serialize_unit_struct(self, _: &'static str) -> Result<(), E> { Err(E) }
        fn serialize_unit_variant(self, _: &'static str, _: u32, _: &'static str) -> Result<(), E> { Err(E) }
        fn serialize_newtype_struct<T: ?Sized + Serialize>(self, _: &'static str, _: &T) -> Result<(), E> { Err(E) }
        fn serialize_newtype_variant<T: ?Sized + Serialize>(self, _: &'static str, _: u32, _: &'static str, _: &T) -> Result<(), E> { Err(E) }
        fn serialize_seq(self, _: Option<usize>) -> Result<Self::SerializeSeq, E> { Err(E) }
        fn serialize_tuple(self, _: usize) -> Result<Self::SerializeTuple, E> { Err(E) }
        fn serialize_tuple_struct(self, _: &'static str, _: usize) -> Result<Self::SerializeTupleStruct, E> { Err(E) }
        fn serialize_tuple_variant(self, _: &'static str, _: u32, _: &'static str, _: usize) -> Result<Self::SerializeTupleVariant, E> { Err(E) }
        fn serialize_map(self, _: Option<usize>) -> Result<Self::SerializeMap, E> { Err(E) }
        fn serialize_struct(self, _: &'static str, _: usize) -> Result<Self::SerializeStruct, E> { Err(E) }
        fn serialize_struct_variant(self, _: &'static str, _: u32, _: &'static str, _: usize) -> Result<Self::SerializeStructVariant, E> { Err(E) }
    }

    // an inner SerializeMap that feeds whatever key/value it is handed into the scalar sink
    struct InnerMap;
    impl SerializeMap for InnerMap {
        type Ok = (); type Error = E;
        fn serialize_key<T: ?Sized + Serialize>(&mut self, key: &T) -> Result<(), E> { key.serialize(Sink) }
        fn serialize_value<T: ?Sized + Serialize>(&mut self, value: &T) -> Result<(), E> { value.serialize(Sink) }
        fn end(self) -> Result<(), E> { Ok(()) }
    }

    #[kani::proof]
    fn map_key_uses_key_behavior_value_uses_value_behavior() {
        let mut m = Override::<_, VB>::new(InnerMap);
        let b: bool = kani::any();
        let f: f64 = kani::any();
        unsafe { LAST = Ev::None; }
        SerializeMap::serialize_key(&mut m, &b).unwrap();
        assert!(unsafe { LAST == Ev::BoolHook });
        SerializeMap::serialize_value(&mut m, &f).unwrap();
        assert!(unsafe { LAST == Ev::F64Hook });
        // a bool in value position is not given key treatment
        SerializeMap::serialize_value(&mut m, &b).unwrap();
        assert!(unsafe { LAST == Ev::BoolRaw });
    }
}
