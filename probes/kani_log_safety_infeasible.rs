// feasibility probe (no answer in 15 min): appended to a scratch copy of conjure-codegen/src/context.rs in which `use std::collections::HashMap;` was replaced by `use self::verif_map::HashMap;`
#[cfg(kani)]
mod verif_map {
    use std::ops::Index;
    pub struct HashMap<K, V> { entries: Vec<(K, V)> }
    impl<K: PartialEq, V> HashMap<K, V> {
        pub fn new() -> Self { HashMap { entries: Vec::new() } }
        pub fn insert(&mut self, k: K, v: V) {
            self.entries.push((k, v));
        }
    }
    impl<K: PartialEq, V> Index<&K> for HashMap<K, V> {
        type Output = V;
        fn index(&self, k: &K) -> &V {
            let mut i = 0;
            while i < self.entries.len() {
                if &self.entries[i].0 == k { return &self.entries[i].1; }
                i += 1;
            }
            panic!("missing key")
        }
    }
}
#[cfg(not(kani))]
mod verif_map { pub use std::collections::HashMap; }

#[cfg(kani)]
mod kani_verif {
    use super::*;
    use crate::types::*;

    fn any_safety() -> Option<LogSafety> {
        let k: u8 = kani::any();
        match k % 4 { 0 => None, 1 => Some(LogSafety::Safe), 2 => Some(LogSafety::Unsafe), _ => Some(LogSafety::DoNotLog) }
    }

    fn tn(n: &str) -> TypeName { TypeName::new(n, "p") }

    fn obj(name: &str, other: &str, leaf_safety: Option<LogSafety>) -> TypeDefinition {
        let f1 = FieldDefinition::new(FieldName("o".to_string()), Type::Reference(tn(other)));
        let mut f2b = FieldDefinition::builder().field_name(FieldName("x".to_string())).type_(Type::Primitive(PrimitiveType::String));
        let f2 = match leaf_safety { Some(s) => f2b.safety(s).build(), None => f2b.build() };
        TypeDefinition::Object(ObjectDefinition::builder().type_name(tn(name)).push_fields(f1).push_fields(f2).build())
    }

    fn ctx(sa: &Option<LogSafety>, sb: &Option<LogSafety>) -> Context {
        let mut types = HashMap::new();
        types.insert(tn("A"), TypeContext { def: obj("A", "B", sa.clone()), has_double: Cell::new(None), is_copy: Cell::new(None), log_safety: RefCell::new(CachedLogSafety::Uncomputed) });
        types.insert(tn("B"), TypeContext { def: obj("B", "A", sb.clone()), has_double: Cell::new(None), is_copy: Cell::new(None), log_safety: RefCell::new(CachedLogSafety::Uncomputed) });
        Context { types, exhaustive: false, serialize_empty_collections: false, strip_prefix: vec![], version: None }
    }

    fn arg(t: &str) -> ArgumentDefinition {
        ArgumentDefinition::new(ArgumentName("a".to_string()), Type::Reference(tn(t)), ParameterType::Body(BodyParameterType::new()))
    }

    #[kani::proof]
    #[kani::unwind(4)]
    fn mutual_recursion_order_independent_and_sound() {
        let sa = any_safety();
        let sb = any_safety();
        let arg_a = arg("A");
        let arg_b = arg("B");

        let c1 = ctx(&sa, &sb);
        let a1 = c1.is_safe_arg(&arg_a);
        let b1 = c1.is_safe_arg(&arg_b);

        let c2 = ctx(&sa, &sb);
        let b2 = c2.is_safe_arg(&arg_b);
        let a2 = c2.is_safe_arg(&arg_a);

        let all_safe = sa == Some(LogSafety::Safe) && sb == Some(LogSafety::Safe);
        assert!(a1 == a2, "answer for A depends on evaluation order");
        assert!(b1 == b2, "answer for B depends on evaluation order");
        assert!(a1 == all_safe && b1 == all_safe, "safe only if everything reachable is safe");
        std::mem::forget(c1); std::mem::forget(c2); std::mem::forget(arg_a); std::mem::forget(arg_b);
    }
}
