// feasibility probe: module appended to a scratch copy of conjure-object/src/any/ser.rs
#[cfg(kani)]
mod kani_verif {
    use super::*;
    use serde::Serializer as _;

    #[kani::proof]
    #[kani::unwind(4)]
    fn seq_serializer_step() {
        let a: u8 = kani::any();
        let b: i64 = kani::any();
        let mut s = AnySerializer.serialize_seq(Some(2)).unwrap();
        SerializeSeq::serialize_element(&mut s, &a).unwrap();
        SerializeSeq::serialize_element(&mut s, &b).unwrap();
        let out = SerializeSeq::end(s).unwrap();
        match &out.0 {
            Inner::Seq(v) => {
                assert!(v.len() == 2);
                assert!(matches!(v[0].0, Inner::U8(x) if x == a));
                assert!(matches!(v[1].0, Inner::I64(x) if x == b));
            }
            _ => assert!(false),
        }
        std::mem::forget(out);
    }
}
