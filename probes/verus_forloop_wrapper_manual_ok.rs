use vstd::prelude::*;
use vstd::std_specs::iter::IteratorSpec;
use vstd::std_specs::iter::VerusForLoopWrapper;
verus! {

pub fn count<I>(body: I)
where
    I: Iterator<Item = u8>,
    requires body.obeys_prophetic_iter_laws(), body.will_return_none(), body.decrease() is Some,
{
    let mut w = VerusForLoopWrapper::new(body);
    assert(w.wf());
    let ghost s0 = w.seq();
    let ghost i0 = w.index();
    assert(i0 == 0);
    let x = w.next();
    assert(w.wf());
    assert(w.seq() == s0);
    assert(x is Some ==> w.index() == 1);
    assert(x is None ==> w.index() == s0.len());
}

}
fn main() {}
