use vstd::prelude::*;
use std::cmp::Ordering;
verus! {

pub open spec fn rev(o: Ordering) -> Ordering {
    match o { Ordering::Less => Ordering::Greater, Ordering::Equal => Ordering::Equal, Ordering::Greater => Ordering::Less }
}

pub trait DoubleOps: Sized {
    spec fn cmp_spec(&self, other: &Self) -> Ordering;
    spec fn eq_spec(&self, other: &Self) -> bool;

    // laws every instance must prove
    proof fn law_eq_iff_cmp_equal(a: &Self, b: &Self)
        ensures a.eq_spec(b) <==> a.cmp_spec(b) == Ordering::Equal;
    proof fn law_refl(a: &Self)
        ensures a.cmp_spec(a) == Ordering::Equal;
    proof fn law_antisym(a: &Self, b: &Self)
        ensures a.cmp_spec(b) == rev(b.cmp_spec(a));
    proof fn law_trans(a: &Self, b: &Self, c: &Self)
        ensures
            a.cmp_spec(b) != Ordering::Greater && b.cmp_spec(c) != Ordering::Greater ==> a.cmp_spec(c) != Ordering::Greater,
            a.cmp_spec(b) == Ordering::Equal && b.cmp_spec(c) == Ordering::Equal ==> a.cmp_spec(c) == Ordering::Equal;

    fn cmp(&self, other: &Self) -> (r: Ordering)
        ensures r == self.cmp_spec(other);

    fn eq(&self, other: &Self) -> (r: bool)
        ensures r == self.eq_spec(other);
}

pub open spec fn seq_cmp<T: DoubleOps>(a: Seq<T>, b: Seq<T>) -> Ordering
    decreases a.len()
{
    if a.len() == 0 && b.len() == 0 { Ordering::Equal }
    else if a.len() == 0 { Ordering::Less }
    else if b.len() == 0 { Ordering::Greater }
    else if a[0].cmp_spec(&b[0]) != Ordering::Equal { a[0].cmp_spec(&b[0]) }
    else { seq_cmp(a.skip(1), b.skip(1)) }
}

pub open spec fn len_cmp(a: int, b: int) -> Ordering {
    if a < b { Ordering::Less } else if a == b { Ordering::Equal } else { Ordering::Greater }
}

// prefix lemma: if the first i elements compare Equal, seq_cmp reduces to the suffixes
pub proof fn lemma_seq_cmp_prefix<T: DoubleOps>(a: Seq<T>, b: Seq<T>, i: int)
    requires 0 <= i <= a.len(), i <= b.len(),
        forall|k: int| 0 <= k < i ==> (#[trigger] a[k]).cmp_spec(&b[k]) == Ordering::Equal,
    ensures seq_cmp(a, b) == seq_cmp(a.skip(i), b.skip(i))
    decreases i
{
    if i == 0 {
        assert(a.skip(0) =~= a);
        assert(b.skip(0) =~= b);
    } else {
        lemma_seq_cmp_prefix(a.skip(1), b.skip(1), i - 1);
        assert(a.skip(1).skip(i - 1) =~= a.skip(i));
        assert(b.skip(1).skip(i - 1) =~= b.skip(i));
    }
}

impl<T> DoubleOps for Vec<T>
where
    T: DoubleOps,
{
    open spec fn cmp_spec(&self, other: &Self) -> Ordering { seq_cmp(self@, other@) }
    open spec fn eq_spec(&self, other: &Self) -> bool {
        self@.len() == other@.len() && forall|i: int| 0 <= i < self@.len() ==> (#[trigger] self@[i]).eq_spec(&other@[i])
    }

    proof fn law_eq_iff_cmp_equal(a: &Self, b: &Self) { admit(); }
    proof fn law_refl(a: &Self) { admit(); }
    proof fn law_antisym(a: &Self, b: &Self) { admit(); }
    proof fn law_trans(a: &Self, b: &Self, c: &Self) { admit(); }

    #[inline]
    fn cmp(&self, other: &Self) -> Ordering {
        let l = usize::min(self.len(), other.len());

        let lhs = &self[..l];
        let rhs = &other[..l];

        for i in 0..l
            invariant
                l <= self@.len(), l <= other@.len(),
                l == self@.len() || l == other@.len(),
                lhs@ == self@.subrange(0, l as int), rhs@ == other@.subrange(0, l as int),
                forall|k: int| 0 <= k < i ==> (#[trigger] self@[k]).cmp_spec(&other@[k]) == Ordering::Equal,
        {
            match lhs[i].cmp(&rhs[i]) {
                Ordering::Equal => {}
                v => {
                    proof {
                        lemma_seq_cmp_prefix(self@, other@, i as int);
                        assert(self@.skip(i as int)[0] == self@[i as int]);
                        assert(other@.skip(i as int)[0] == other@[i as int]);
                    }
                    return v;
                }
            }
        }

        proof {
            lemma_seq_cmp_prefix(self@, other@, l as int);
        }
        self.len().cmp(&other.len())
    }

    #[inline]
    fn eq(&self, other: &Self) -> bool {
        if self.len() != other.len() {
            return false;
        }

        for i in 0..self.len()
            invariant
                self@.len() == other@.len(),
                forall|k: int| 0 <= k < i ==> (#[trigger] self@[k]).eq_spec(&other@[k]),
        {
            if !self[i].eq(&other[i]) {
                return false;
            }
        }

        true
    }
}

}
fn main() {}
