//! vx: mechanical item locator for the verification framework.
//!
//! `vx <file.rs>` parses the file with syn and prints one JSON document describing every item
//! (functions incl. impl/trait methods, structs, enums, consts, statics, types, traits, macros, uses):
//! exact byte ranges of the item (with and without attributes), of the signature, of the body block,
//! of every loop in the body (pre-order ordinal), of `debug_assert*!` statement macros, and of `|_|`
//! closure parameters. It also scans the raw token stream (including macro_rules bodies and macro
//! arguments, which syn leaves unparsed) for call-like constructor sites `Ident ( .. )` / `Ident { .. }`
//! of the identifiers given with `--ctor <Ident>`.
use proc_macro2::{Delimiter, Span, TokenStream, TokenTree};
use quote::ToTokens;
use serde_json::{json, Value};
use syn::spanned::Spanned;
use syn::visit::Visit;

fn rng(s: Span) -> (usize, usize) {
    let r = s.byte_range();
    (r.start, r.end)
}

fn norm(ts: impl ToTokens) -> String {
    let s = ts.to_token_stream().to_string();
    // canonical form: tokens joined without whitespace, except one space between two tokens that
    // would otherwise merge into one identifier/keyword
    let mut out = String::new();
    for t in s.split_whitespace() {
        let need = match (out.chars().last(), t.chars().next()) {
            (Some(a), Some(b)) => (a.is_alphanumeric() || a == '_') && (b.is_alphanumeric() || b == '_'),
            _ => false,
        };
        if need {
            out.push(' ');
        }
        out.push_str(t);
    }
    out
}

struct BodyScan {
    loops: Vec<Value>,
    debug_asserts: Vec<Value>,
    underscore_closures: Vec<Value>,
}

impl<'ast> Visit<'ast> for BodyScan {
    fn visit_expr_while(&mut self, e: &'ast syn::ExprWhile) {
        let (s, en) = rng(e.span());
        let (bs, be) = rng(e.body.span());
        self.loops.push(json!({"kind":"while","start":s,"end":en,"body_start":bs,"body_end":be}));
        syn::visit::visit_expr_while(self, e);
    }
    fn visit_expr_for_loop(&mut self, e: &'ast syn::ExprForLoop) {
        let (s, en) = rng(e.span());
        let (bs, be) = rng(e.body.span());
        self.loops.push(json!({"kind":"for","start":s,"end":en,"body_start":bs,"body_end":be,"pat":norm(&e.pat),"expr":norm(&e.expr)}));
        syn::visit::visit_expr_for_loop(self, e);
    }
    fn visit_expr_loop(&mut self, e: &'ast syn::ExprLoop) {
        let (s, en) = rng(e.span());
        let (bs, be) = rng(e.body.span());
        self.loops.push(json!({"kind":"loop","start":s,"end":en,"body_start":bs,"body_end":be}));
        syn::visit::visit_expr_loop(self, e);
    }
    fn visit_stmt_macro(&mut self, m: &'ast syn::StmtMacro) {
        let name = norm(&m.mac.path);
        if name.starts_with("debug_assert") {
            let (s, e) = rng(m.span());
            self.debug_asserts.push(json!({"start":s,"end":e,"name":name}));
        }
        syn::visit::visit_stmt_macro(self, m);
    }
    fn visit_expr_closure(&mut self, c: &'ast syn::ExprClosure) {
        for p in &c.inputs {
            if let syn::Pat::Wild(w) = p {
                let (s, e) = rng(w.span());
                self.underscore_closures.push(json!({"start":s,"end":e}));
            }
        }
        syn::visit::visit_expr_closure(self, c);
    }
}

fn attrs_end(attrs: &[syn::Attribute], item_start: usize) -> usize {
    // byte offset of the first token after all outer attributes
    let mut end = item_start;
    for a in attrs {
        let (_, e) = rng(a.span());
        if e > end {
            end = e;
        }
    }
    end
}

fn fn_entry(
    key: String,
    attrs: &[syn::Attribute],
    sig: &syn::Signature,
    block: Option<&syn::Block>,
    whole: Span,
    vis_start: Option<usize>,
) -> Value {
    let (s, e) = rng(whole);
    let (ss, se) = rng(sig.span());
    let noattr_start = vis_start.unwrap_or(ss).min(ss).max(if attrs.is_empty() { s } else { attrs_end(attrs, s) });
    let mut v = json!({
        "kind": "fn", "key": key, "name": sig.ident.to_string(),
        "start": s, "end": e, "noattr_start": noattr_start,
        "sig_start": ss, "sig_end": se,
        "sig": norm(sig),
        "attrs": attrs.iter().map(|a| norm(a)).collect::<Vec<_>>(),
    });
    if let Some(b) = block {
        let (bs, be) = rng(b.span());
        let mut scan = BodyScan { loops: vec![], debug_asserts: vec![], underscore_closures: vec![] };
        scan.visit_block(b);
        v["body_start"] = json!(bs);
        if let Some(syn::Stmt::Expr(e, None)) = b.stmts.last() {
            v["tail_start"] = json!(rng(e.span()).0);
        }
        v["body_end"] = json!(be);
        v["loops"] = json!(scan.loops);
        v["debug_asserts"] = json!(scan.debug_asserts);
        v["underscore_closures"] = json!(scan.underscore_closures);
    }
    v
}

fn vis_start(v: &syn::Visibility) -> Option<usize> {
    match v {
        syn::Visibility::Inherited => None,
        other => Some(rng(other.span()).0),
    }
}

fn simple_item(kind: &str, key: String, attrs: &[syn::Attribute], whole: Span) -> Value {
    let (s, e) = rng(whole);
    let na = if attrs.is_empty() { s } else { attrs_end(attrs, s) };
    json!({"kind": kind, "key": key, "start": s, "end": e, "noattr_start": na,
           "attrs": attrs.iter().map(|a| norm(a)).collect::<Vec<_>>()})
}

fn walk_items(items: &[syn::Item], prefix: &str, out: &mut Vec<Value>) {
    for it in items {
        match it {
            syn::Item::Fn(f) => {
                out.push(fn_entry(format!("{}fn {}", prefix, f.sig.ident), &f.attrs, &f.sig, Some(&f.block), f.span(), vis_start(&f.vis)));
            }
            syn::Item::Impl(im) => {
                let head = match &im.trait_ {
                    Some((_, p, _)) => format!("{} for {}", norm(p), norm(&im.self_ty)),
                    None => norm(&im.self_ty),
                };
                let gens = norm(&im.generics.params);
                let (s, e) = rng(im.span());
                let na = if im.attrs.is_empty() { s } else { attrs_end(&im.attrs, s) };
                let (bo, _) = rng(im.brace_token.span.open());
                let (_, bc) = rng(im.brace_token.span.close());
                out.push(json!({"kind":"impl","key":format!("{}impl {}", prefix, head),"generics":gens,
                    "start":s,"end":e,"noattr_start":na,"brace_open":bo,"brace_close_end":bc,
                    "attrs": im.attrs.iter().map(|a| norm(a)).collect::<Vec<_>>()}));
                for ii in &im.items {
                    match ii {
                        syn::ImplItem::Fn(m) => {
                            out.push(fn_entry(format!("{}{}::{}", prefix, head, m.sig.ident), &m.attrs, &m.sig, Some(&m.block), m.span(), vis_start(&m.vis)));
                        }
                        syn::ImplItem::Type(t) => out.push(simple_item("impl_type", format!("{}{}::type {}", prefix, head, t.ident), &t.attrs, t.span())),
                        syn::ImplItem::Const(c) => out.push(simple_item("impl_const", format!("{}{}::const {}", prefix, head, c.ident), &c.attrs, c.span())),
                        syn::ImplItem::Macro(m) => out.push(simple_item("impl_macro", format!("{}{}::macro {}", prefix, head, norm(&m.mac.path)), &m.attrs, m.span())),
                        _ => {}
                    }
                }
            }
            syn::Item::Trait(t) => {
                out.push(simple_item("trait", format!("{}trait {}", prefix, t.ident), &t.attrs, t.span()));
                for ti in &t.items {
                    if let syn::TraitItem::Fn(m) = ti {
                        out.push(fn_entry(format!("{}trait {}::{}", prefix, t.ident, m.sig.ident), &m.attrs, &m.sig, m.default.as_ref(), m.span(), None));
                    }
                }
            }
            syn::Item::Struct(s) => out.push(simple_item("struct", format!("{}struct {}", prefix, s.ident), &s.attrs, s.span())),
            syn::Item::Enum(s) => out.push(simple_item("enum", format!("{}enum {}", prefix, s.ident), &s.attrs, s.span())),
            syn::Item::Const(s) => out.push(simple_item("const", format!("{}const {}", prefix, s.ident), &s.attrs, s.span())),
            syn::Item::Static(s) => out.push(simple_item("static", format!("{}static {}", prefix, s.ident), &s.attrs, s.span())),
            syn::Item::Type(s) => out.push(simple_item("type", format!("{}type {}", prefix, s.ident), &s.attrs, s.span())),
            syn::Item::Macro(m) => {
                let name = match &m.ident {
                    Some(i) => format!("macro_rules {}", i),
                    None => format!("macro {}", norm(&m.mac.path)),
                };
                let mut v = simple_item("macro", format!("{}{}", prefix, name), &m.attrs, m.span());
                v["tokens"] = json!(m.mac.tokens.to_string());
                out.push(v);
            }
            syn::Item::Mod(m) => {
                out.push(simple_item("mod", format!("{}mod {}", prefix, m.ident), &m.attrs, m.span()));
                if let Some((_, items)) = &m.content {
                    walk_items(items, &format!("{}{}::", prefix, m.ident), out);
                }
            }
            syn::Item::Use(u) => out.push(simple_item("use", format!("{}use {}", prefix, norm(&u.tree)), &u.attrs, u.span())),
            _ => {}
        }
    }
}

fn scan_ctors(ts: TokenStream, names: &[String], out: &mut Vec<Value>) {
    let toks: Vec<TokenTree> = ts.into_iter().collect();
    for (i, t) in toks.iter().enumerate() {
        match t {
            TokenTree::Ident(id) => {
                let n = id.to_string();
                if names.contains(&n) {
                    if let Some(TokenTree::Group(g)) = toks.get(i + 1) {
                        let d = g.delimiter();
                        // exclude `struct Name(..)` / `enum`, patterns are not distinguished (conservative: reported)
                        let prev_is_struct = i > 0 && matches!(&toks[i - 1], TokenTree::Ident(p) if p == "struct" || p == "enum" || p == "union");
                        let prev_is_for = i > 0 && matches!(&toks[i - 1], TokenTree::Ident(p) if p == "for" || p == "impl");
                        if (d == Delimiter::Parenthesis || (d == Delimiter::Brace && !prev_is_for)) && !prev_is_struct {
                            let (s, e) = rng(id.span());
                            let (_, ge) = rng(g.span());
                            out.push(json!({"name": n, "start": s, "ident_end": e, "end": ge,
                                "delim": if d == Delimiter::Parenthesis {"paren"} else {"brace"},
                                "line": id.span().start().line}));
                        }
                    }
                }
            }
            TokenTree::Group(g) => scan_ctors(g.stream(), names, out),
            _ => {}
        }
    }
}

fn main() {
    let args: Vec<String> = std::env::args().skip(1).collect();
    let mut file = None;
    let mut ctors = vec![];
    let mut i = 0;
    while i < args.len() {
        if args[i] == "--ctor" {
            ctors.push(args[i + 1].clone());
            i += 2;
        } else {
            file = Some(args[i].clone());
            i += 1;
        }
    }
    let file = file.expect("usage: vx <file.rs> [--ctor Ident]...");
    let src = std::fs::read_to_string(&file).unwrap_or_else(|e| {
        eprintln!("vx: cannot read {}: {}", file, e);
        std::process::exit(2)
    });
    let ast = match syn::parse_file(&src) {
        Ok(a) => a,
        Err(e) => {
            eprintln!("vx: parse error in {}: {}", file, e);
            std::process::exit(2)
        }
    };
    let mut items = vec![];
    walk_items(&ast.items, "", &mut items);
    let mut sites = vec![];
    if !ctors.is_empty() {
        let ts: TokenStream = src.parse().expect("tokenize");
        scan_ctors(ts, &ctors, &mut sites);
    }
    // byte offsets reported by proc-macro2 are character offsets; convert when the file is non-ASCII
    let ascii = src.is_ascii();
    let doc = json!({"file": file, "len": src.len(), "ascii": ascii, "items": items, "ctor_sites": sites});
    println!("{}", serde_json::to_string(&doc).unwrap());
}
