// Demonstration of the (repaired) C01 defect: a uuid nested below the root did not survive a Smile round trip.
// Place at conjure-serde/tests/uuid_nested.rs ; run: cargo test --offline -p conjure-serde --test uuid_nested
// Before the fix the two `nested` tests fail with
//   invalid type: string "00000000-0000-0000-0000-000000000000", expected bytes
// because ser::Override did not forward is_human_readable (nested values were written in their
// human-readable form while the deserializer side, which does forward it, expected the binary form).
use conjure_object::Uuid;
use serde::{Deserialize, Serialize};

#[derive(Serialize, Deserialize, Debug, PartialEq)]
struct Foo {
    id: Uuid,
}

#[test]
fn smile_nested_uuid_in_vec_round_trips() {
    let v = vec![Uuid::nil()];
    let bytes = conjure_serde::smile::to_vec(&v).unwrap();
    let back: Vec<Uuid> = conjure_serde::smile::client_from_slice(&bytes).unwrap();
    assert_eq!(v, back);
}

#[test]
fn smile_nested_uuid_in_struct_round_trips() {
    let v = Foo { id: Uuid::nil() };
    let bytes = conjure_serde::smile::to_vec(&v).unwrap();
    let back: Foo = conjure_serde::smile::server_from_slice(&bytes).unwrap();
    assert_eq!(v, back);
}

#[test]
fn smile_top_level_uuid_round_trips() {
    let v = Uuid::nil();
    let bytes = conjure_serde::smile::to_vec(&v).unwrap();
    let back: Uuid = conjure_serde::smile::client_from_slice(&bytes).unwrap();
    assert_eq!(v, back);
}
