// Demonstration of known finding C07/build (appended to conjure-http/src/private/client/uri_builder.rs of a
// scratch copy; run: cargo test -p conjure-http --lib --offline verif_c07_finding).
// On the pinned tree `build_panics_for_uri_over_65534_bytes` FAILS (build panics), the companion test passes.
#[cfg(test)]
mod verif_c07_finding {
    use super::*;

    #[test]
    fn build_panics_for_uri_over_65534_bytes() {
        let value = "a".repeat(65535);
        let r = std::panic::catch_unwind(|| {
            let mut b = UriBuilder::new();
            b.push_literal("/x");
            b.push_path_parameter_raw(&value);
            b.build()
        });
        assert!(r.is_ok(), "UriBuilder::build panicked for a 65535-byte path parameter");
    }

    #[test]
    fn build_ok_just_below_the_limit() {
        let value = "a".repeat(65534 - 3);
        let mut b = UriBuilder::new();
        b.push_literal("/x");
        b.push_path_parameter_raw(&value);
        let _ = b.build();
    }
}
