// Demonstration of the (repaired) C13 defect: a serde newtype struct stored in `Any` could not be read back.
// Place at conjure-object/tests/any_newtype_struct.rs ; run: cargo test --offline -p conjure-object --test any_newtype_struct
use conjure_object::Any;
use serde::de::{self, Deserializer, Visitor};
use serde::ser::Serializer;
use serde::{Deserialize, Serialize};
use std::fmt;

// exactly what #[derive(Serialize, Deserialize)] generates for `struct W(i64);`
#[derive(Debug, PartialEq)]
struct W(i64);
impl Serialize for W {
    fn serialize<S: Serializer>(&self, s: S) -> Result<S::Ok, S::Error> {
        s.serialize_newtype_struct("W", &self.0)
    }
}
impl<'de> Deserialize<'de> for W {
    fn deserialize<D: Deserializer<'de>>(d: D) -> Result<W, D::Error> {
        struct V;
        impl<'de> Visitor<'de> for V {
            type Value = W;
            fn expecting(&self, f: &mut fmt::Formatter) -> fmt::Result {
                f.write_str("tuple struct W")
            }
            fn visit_newtype_struct<D: Deserializer<'de>>(self, d: D) -> Result<W, D::Error> {
                i64::deserialize(d).map(W)
            }
            fn visit_seq<A: de::SeqAccess<'de>>(self, mut a: A) -> Result<W, A::Error> {
                match a.next_element()? {
                    Some(x) => Ok(W(x)),
                    None => Err(de::Error::invalid_length(0, &self)),
                }
            }
        }
        d.deserialize_newtype_struct("W", V)
    }
}

#[test]
fn newtype_struct_round_trips_through_any() {
    let a = Any::new(W(5)).unwrap();
    assert_eq!(a.deserialize_into::<W>().unwrap(), W(5));
}

#[test]
fn newtype_struct_inside_vec_round_trips_through_any() {
    let a = Any::new(vec![W(5), W(-1)]).unwrap();
    assert_eq!(a.deserialize_into::<Vec<W>>().unwrap(), vec![W(5), W(-1)]);
}
