#!/usr/bin/env python3
"""debug helper: render a Verus unit from the current tree and run verus on it"""
import os, sys
sys.path.insert(0, os.path.join(os.path.dirname(os.path.dirname(os.path.abspath(__file__))), "lib"))
import vf
prop, tpl = sys.argv[1], sys.argv[2]
text, blocks = vf.build_verus_unit(os.path.join(vf.VERIF, "contracts", prop, tpl))
os.makedirs("/var/tmp/vt", exist_ok=True)
out = "/var/tmp/vt/dbg_%s.rs" % prop.lower()
open(out, "w").write(text)
r = vf.run_verus(out)
print(r.get("summary"), r.get("tool_error", ""))
for fn, fr in r["functions"].items():
    print("  ", fn, fr["success"], fr["time_s"], fr["mode"])
print(r["stderr"][-6000:])
