#!/usr/bin/env python3
"""Mechanical mutation sweep over the anchored source files (a development aid, not one of the registered checks).

phase 1:  mutsweep.py gen                      -> logs/mutsweep/mutants.json (every mechanical mutant of the target files)
          mutsweep.py suite [workers]          -> runs the repository's own test suite on every mutant in scratch copies of
                                                  /repo under /var/tmp/mutsweep/, records compile-fail / suite-fail / survives
phase 2:  mutsweep.py check <per-prop-cap> [workers] [seed]
                                               -> runs ./check <prop> --tier quick on a seeded sample of the survivors
          mutsweep.py report                   -> table of survivors the checks stayed quiet on (to be judged by hand:
                                                  equivalent / outside the property / a gap)
Scratch copies live outside /repo and /verif and are removed by `mutsweep.py clean`."""
import json, os, random, re, shutil, subprocess, sys, time
from concurrent.futures import ThreadPoolExecutor

V = os.path.dirname(os.path.dirname(os.path.abspath(__file__)))
ROOT = "/var/tmp/mutsweep"
OUT = os.path.join(V, "logs", "mutsweep")
TARGETS = {
    "conjure-object/src/any/ser.rs": ["C13"],
    "conjure-object/src/any/de.rs": ["C13"],
    "conjure-object/src/any/mod.rs": ["C13"],
    "conjure-object/src/private.rs": ["C14"],
    "conjure-object/src/double_key.rs": ["C14"],
    "conjure-object/src/safe_long.rs": ["C15"],
    "conjure-object/src/bearer_token/mod.rs": ["C16"],
    "conjure-serde/src/ser.rs": ["C01"],
    "conjure-serde/src/de/mod.rs": ["C01", "C05"],
    "conjure-serde/src/de/unknown_fields_behavior.rs": ["C05"],
    "conjure-serde/src/de/delegating_visitor.rs": ["C01"],
    "conjure-serde/src/json/ser.rs": ["C01"],
    "conjure-serde/src/json/de/client.rs": ["C01"],
    "conjure-serde/src/json/de/server.rs": ["C05"],
    "conjure-serde/src/smile/ser.rs": ["C01"],
    "conjure-serde/src/smile/de/client.rs": ["C01"],
    "conjure-serde/src/smile/de/server.rs": ["C05"],
    "conjure-http/src/private/client/uri_builder.rs": ["C07"],
}
TY = ["i8", "i16", "i32", "i64", "i128", "u8", "u16", "u32", "u64", "u128", "f32", "f64"]
NEXT = {"i8": "i16", "i16": "i32", "i32": "i64", "i64": "u64", "i128": "i64", "u8": "u16", "u16": "u32", "u32": "u64", "u64": "i64",
        "u128": "u64", "f32": "f64", "f64": "f32"}

def sh(cmd, cwd, env=None, timeout=3600):
    e = dict(os.environ); e["CARGO_NET_OFFLINE"] = "true"
    if env: e.update(env)
    try:
        p = subprocess.run(cmd, shell=True, cwd=cwd, env=e, stdout=subprocess.PIPE, stderr=subprocess.STDOUT, text=True, timeout=timeout)
        return p.returncode, p.stdout
    except subprocess.TimeoutExpired as ex:
        return 124, (ex.stdout or b"").decode("utf8", "replace") if isinstance(ex.stdout, bytes) else (ex.stdout or "")

def code_lines(src):
    """yield (lineno, line) for lines that are code: outside #[cfg(test)] tails, not comments/attributes/use/doc"""
    ls = src.split("\n")
    for i, l in enumerate(ls):
        s = l.strip()
        if s.startswith("#[cfg(test)]"):
            if i + 1 < len(ls) and ls[i + 1].strip().endswith(";"):
                continue
            break
        if not s or s.startswith("//") or s.startswith("#[") or s.startswith("#![") or s.startswith("use ") or s.startswith("pub use "):
            continue
        if s.startswith("mod ") or s.startswith("pub mod "):
            continue
        yield i, l

def strip_strings(l):
    return re.sub(r'"(?:[^"\\]|\\.)*"', lambda m: '"' + "_" * (len(m.group(0)) - 2) + '"', l)

def mutants_of_line(l):
    out = []
    code = strip_strings(l)
    cut = code.find("//")
    if cut >= 0:
        code = code[:cut]
    def rep_all(pat, fn, tag):
        for m in re.finditer(pat, code):
            r = fn(m)
            if r is None: continue
            out.append((tag, l[:m.start()] + r + l[m.end():]))
    rep_all(r"==", lambda m: "!=", "eq->ne")
    rep_all(r"!=", lambda m: "==", "ne->eq")
    rep_all(r"<=", lambda m: "<", "le->lt")
    rep_all(r">=", lambda m: ">", "ge->gt")
    rep_all(r"(?<=[\w)\]] )<(?= [\w(&*-])", lambda m: "<=", "lt->le")
    rep_all(r"(?<=[\w)\]] )>(?= [\w(&*-])", lambda m: ">=", "gt->ge")
    rep_all(r"&&", lambda m: "||", "and->or")
    rep_all(r"\|\|(?! \{)", lambda m: "&&" if not re.search(r"\|\|\s*$", code[:m.end()]) else None, "or->and")
    rep_all(r"(?<=[\w)\]] )\+(?= [\w(])", lambda m: "-", "add->sub")
    rep_all(r"(?<=[\w)\]] )-(?= [\w(])", lambda m: "+", "sub->add")
    rep_all(r"\btrue\b", lambda m: "false", "true->false")
    rep_all(r"\bfalse\b", lambda m: "true", "false->true")
    rep_all(r"(?<![\w.])(\d+)(?![\w.\]])", lambda m: str(int(m.group(1)) + 1) if len(m.group(1)) < 6 else None, "int+1")
    rep_all(r"(?<=[( ])!(?=[\w(*])", lambda m: "", "drop-not")
    rep_all(r"\b(visit|serialize|deserialize)_(%s)\b" % "|".join(TY),
            lambda m: None if re.match(r"\s*(pub )?fn ", code) else "%s_%s" % (m.group(1), NEXT[m.group(2)]), "width-swap")
    rep_all(r"\bOrdering::Less\b", lambda m: "Ordering::Greater", "less->greater")
    rep_all(r"\bOrdering::Greater\b", lambda m: "Ordering::Less", "greater->less")
    rep_all(r"\.is_some\(\)", lambda m: ".is_none()", "some->none")
    rep_all(r"\.is_none\(\)", lambda m: ".is_some()", "none->some")
    rep_all(r"\.is_ok\(\)", lambda m: ".is_err()", "ok->err")
    rep_all(r"\.is_err\(\)", lambda m: ".is_ok()", "err->ok")
    rep_all(r"(?<=if )(?=[\w.]+\.is_empty\(\))", lambda m: "!", "add-not")
    rep_all(r"(?<=if )(?=[\w.]+\.is_nan\(\))", lambda m: "!", "add-not")
    rep_all(r"= Some\([^;]*\);", lambda m: "= None;", "some-assign->none")
    rep_all(r"\.take\(\)", lambda m: ".clone()", "take->clone")
    # dynamic-value operators: an arm forwards to / stores as a neighbouring width with a cast (compiles; narrowing truncates,
    # f32 -> f64 changes the printed document)
    CAST = {"i8": ["i16"], "i16": ["i8", "i32"], "i32": ["i16", "i64"], "i64": ["i32", "u64"], "i128": ["i64"], "u8": ["u16", "i8"], "u16": ["u8"],
            "u32": ["u16", "u64"], "u64": ["u32", "i64"], "u128": ["u64"], "f32": ["f64"], "f64": ["f32"]}
    for m in re.finditer(r"\b(serializer\.serialize|visitor\.visit)_(%s)\((\*?v(?:\.0)?)\)" % "|".join(TY), code):
        for t2 in CAST[m.group(2)]:
            out.append(("cast-swap", l[:m.start()] + "%s_%s(%s as %s)" % (m.group(1), t2, m.group(3), t2) + l[m.end():]))
    for m in re.finditer(r"Ok\(Any\(Inner::(I8|I16|I32|I64|I128|U8|U16|U32|U64|U128)\(v\)\)\)", code):
        t = m.group(1).lower()
        for t2 in CAST[t]:
            out.append(("store-cast", l[:m.start()] + "Ok(Any(Inner::%s(v as %s)))" % (t2.upper(), t2) + l[m.end():]))
    rep_all(r"Inner::F32\(OrderedFloat\(v\)\)", lambda m: "Inner::F64(OrderedFloat(v as f64))", "store-cast")
    rep_all(r"Inner::F64\(OrderedFloat\(v\)\)", lambda m: "Inner::F32(OrderedFloat(v as f32))", "store-cast")
    rep_all(r"Inner::Null(?=\)\))", lambda m: "Inner::Bool(false)", "null->false")
    # wrapper-specific operators: lose the Override re-wrapping, the key behaviour, or the behaviour hook
    rep_all(r"&Override::<_, B(::KeyBehavior)?>::new\((\w+)\)", lambda m: m.group(2), "unwrap-override")
    rep_all(r"(?<!&)Override::<_, B(::KeyBehavior)?>::new\((\w+)\)", lambda m: m.group(2), "unwrap-override")
    rep_all(r"Override::<_, B::KeyBehavior>", lambda m: "Override::<_, B>", "key-behaviour-drop")
    rep_all(r"Override::<_, B>(?=::new\((key|seed|value)\))", lambda m: "Override::<_, B::KeyBehavior>", "key-behaviour-add")
    rep_all(r"\$crate::(ser|de)::Override::<_, \$behavior>::new\(&mut self\.0\)", lambda m: "(&mut self.0)", "entry-bypass")
    rep_all(r"B::(\$?\w+)\((self\.inner|de), ", lambda m: "%s.%s(" % (m.group(2), m.group(1)), "behaviour-bypass")
    rep_all(r"\bvisit_str\b", lambda m: None if re.match(r"\s*(pub )?fn ", code) else "visit_string", "noop")
    rep_all(r"\bInner::(\w+)\((\w+)\) => (visitor|serializer)\.(\w+)\(", lambda m: None, "noop")
    # short string literals without spaces: flip the case of the first letter (wire spellings, not messages)
    for m in re.finditer(r'"((?:[^"\\ ]|\\.){1,12})"', l):
        if cut >= 0 and m.start() > cut: continue
        t = m.group(1)
        k = next((j for j, ch in enumerate(t) if ch.isalpha() and (j == 0 or t[j - 1] != "\\")), None)
        if k is None: continue
        t2 = t[:k] + t[k].swapcase() + t[k + 1:]
        out.append(("str-case", l[:m.start()] + '"' + t2 + '"' + l[m.end():]))
    # statement deletion: a complete expression statement on one line
    s = l.strip()
    if re.match(r"^(self\.|\*self\.|[a-z_]+\.|[a-z_]+ = |\*[a-z_]+ = )[^{}]*;$", s) and not s.startswith("let "):
        out.append(("del-stmt", l[:len(l) - len(l.lstrip())] + "// deleted"))
    ints = [o for o in out if o[0] == "int+1"]
    if len(ints) > 2:
        out = [o for o in out if o[0] != "int+1"] + [ints[0], ints[-1]]
    return [(t, x) for t, x in out if x != l]

def gen():
    os.makedirs(OUT, exist_ok=True)
    oldf = os.path.join(OUT, "mutants.json")
    prev = json.load(open(oldf)) if os.path.exists(oldf) else []
    seen = {(m["file"], m["line"], m["new"]) for m in prev}
    ms = []
    for f, props in TARGETS.items():
        src = open(os.path.join("/repo", f)).read()
        for i, l in code_lines(src):
            for tag, nl in mutants_of_line(l):
                if (f, i + 1, nl) in seen: continue
                seen.add((f, i + 1, nl))
                ms.append(dict(id=len(prev) + len(ms), file=f, line=i + 1, op=tag, old=l, new=nl, props=props))
    print(len(ms), "new mutants")
    ms = prev + ms
    json.dump(ms, open(os.path.join(OUT, "mutants.json"), "w"), indent=0)
    by = {}
    for m in ms: by[m["file"]] = by.get(m["file"], 0) + 1
    print(len(ms), "mutants"); [print("  %4d %s" % (n, f)) for f, n in by.items()]

def worker_dir(w):
    d = os.path.join(ROOT, "w%d" % w)
    if not os.path.isdir(d):
        os.makedirs(ROOT, exist_ok=True)
        sh("rsync -a --exclude .git /repo/ %s/" % d, "/")
    return d

def apply(d, m):
    p = os.path.join(d, m["file"])
    lines = open(os.path.join("/repo", m["file"])).read().split("\n")
    assert lines[m["line"] - 1] == m["old"], (m["file"], m["line"])
    lines[m["line"] - 1] = m["new"]
    open(p, "w").write("\n".join(lines))

def revert(d, m):
    shutil.copy(os.path.join("/repo", m["file"]), os.path.join(d, m["file"]))
    os.utime(os.path.join(d, m["file"]))

SUITE = "cargo test --workspace --no-fail-fast --offline --lib --bins --tests -j 4"

def suite(workers):
    ms = json.load(open(os.path.join(OUT, "mutants.json")))
    resf = os.path.join(OUT, "suite.json")
    res = json.load(open(resf)) if os.path.exists(resf) else {}
    todo = [m for m in ms if str(m["id"]) not in res]
    import queue, threading
    q = queue.Queue()
    for m in todo: q.put(m)
    lock = threading.Lock()
    def run(w):
        d = worker_dir(w)
        while True:
            try: m = q.get_nowait()
            except queue.Empty: return
            apply(d, m)
            t0 = time.time()
            rc, out = sh(SUITE, d, timeout=900)
            revert(d, m)
            if rc == 124: st = "timeout"
            elif re.search(r"^error(\[E\d+\])?:", out, re.M) and "test result" not in out.split("error")[0] and "could not compile" in out: st = "compile-fail"
            elif rc != 0: st = "suite-fail"
            else:
                n = sum(int(x) for x in re.findall(r"test result: ok\. (\d+) passed", out))
                st = "survives" if n == 112 else "suite-odd-%d" % n
            with lock:
                res[str(m["id"])] = dict(status=st, wall=round(time.time() - t0, 1))
                if len(res) % 20 == 0:
                    json.dump(res, open(resf, "w"))
                    print(len(res), "/", len(ms), flush=True)
    ths = [threading.Thread(target=run, args=(w,)) for w in range(workers)]
    [t.start() for t in ths]; [t.join() for t in ths]
    json.dump(res, open(resf, "w"))
    c = {}
    for r in res.values(): c[r["status"]] = c.get(r["status"], 0) + 1
    print(c)

def check(cap, workers, seed):
    ms = json.load(open(os.path.join(OUT, "mutants.json")))
    res = json.load(open(os.path.join(OUT, "suite.json")))
    chkf = os.path.join(OUT, "check.json")
    chk = json.load(open(chkf)) if os.path.exists(chkf) else {}
    rnd = random.Random(seed)
    surv = [m for m in ms if res.get(str(m["id"]), {}).get("status") == "survives"]
    if os.environ.get("MUTSWEEP_IDS"):
        want = {int(x) for x in os.environ["MUTSWEEP_IDS"].split(",")}
        surv = [m for m in surv if m["id"] in want]
    jobs = []
    for prop in sorted({p for m in surv for p in m["props"]}):
        pool = [m for m in surv if prop in m["props"]]
        rnd.shuffle(pool)
        for m in pool[:cap]:
            key = "%d:%s" % (m["id"], prop)
            if key not in chk: jobs.append((m, prop, key))
    print(len(jobs), "check runs to do")
    import queue, threading
    q = queue.Queue()
    for j in jobs: q.put(j)
    lock = threading.Lock()
    def run(w):
        d = worker_dir(w)
        while True:
            try: m, prop, key = q.get_nowait()
            except queue.Empty: return
            apply(d, m)
            env = {"VERIF_REPO": d, "VERIF_TAG": "-ms%d" % w, "VERIF_CACHE": os.path.join(ROOT, "cache%d" % w),
                   "VERIF_EVIDENCE_DIR": os.path.join(OUT, "ev%d" % w)}
            t0 = time.time()
            rc, out = sh("./check %s --tier quick" % prop, V, env=env, timeout=3600)
            revert(d, m)
            with lock:
                chk[key] = dict(exit=rc, wall=round(time.time() - t0, 1), failed=re.findall(r"^FAILED OBLIGATION (\S+)", out, re.M)[:8],
                                undecided=[u[:160] for u in re.findall(r"^  - (.*)$", out, re.M)[:4]])
                json.dump(chk, open(chkf, "w"), indent=0)
                print(key, m["file"], m["line"], m["op"], "exit", rc, flush=True)
    ths = [threading.Thread(target=run, args=(w,)) for w in range(workers)]
    [t.start() for t in ths]; [t.join() for t in ths]

def report():
    ms = {m["id"]: m for m in json.load(open(os.path.join(OUT, "mutants.json")))}
    res = json.load(open(os.path.join(OUT, "suite.json")))
    chk = json.load(open(os.path.join(OUT, "check.json")))
    c = {}
    for r in res.values(): c[r["status"]] = c.get(r["status"], 0) + 1
    print("suite:", c)
    e = {}
    for k, r in chk.items(): e[r["exit"]] = e.get(r["exit"], 0) + 1
    print("checks on sampled survivors: exit codes", e)
    for k, r in sorted(chk.items(), key=lambda kv: (kv[0].split(":")[1], int(kv[0].split(":")[0]))):
        if r["exit"] == 1: continue
        i, prop = k.split(":"); m = ms[int(i)]
        print("%s exit=%d #%s %s:%d [%s]\n    - %s\n    + %s%s" % (prop, r["exit"], i, m["file"], m["line"], m["op"], m["old"].strip(), m["new"].strip(),
              ("\n    undecided: " + "; ".join(r["undecided"][:2])) if r["exit"] == 2 else ""))

if __name__ == "__main__":
    a = sys.argv[1]
    if a == "gen": gen()
    elif a == "suite": suite(int(sys.argv[2]) if len(sys.argv) > 2 else 6)
    elif a == "check": check(int(sys.argv[2]), int(sys.argv[3]) if len(sys.argv) > 3 else 3, int(sys.argv[4]) if len(sys.argv) > 4 else 1)
    elif a == "report": report()
    elif a == "clean": shutil.rmtree(ROOT, ignore_errors=True)
