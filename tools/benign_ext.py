#!/usr/bin/env python3
"""Runs behaviour-preserving refactorings produced by independent sub-agents through the checks (on scratch copies of /repo).
usage: benign_ext.py <name> <patch.diff> <notes.md> <prop>[,<prop>...]"""
import json, os, re, shutil, subprocess, sys, time
V = os.path.dirname(os.path.dirname(os.path.abspath(__file__)))
def sh(cmd, cwd, env=None, timeout=7200):
    e = dict(os.environ); e["CARGO_NET_OFFLINE"] = "true"
    if env: e.update(env)
    p = subprocess.run(cmd, shell=True, cwd=cwd, env=e, stdout=subprocess.PIPE, stderr=subprocess.STDOUT, text=True, timeout=timeout)
    return p.returncode, p.stdout
name, patch, notes, props = sys.argv[1], sys.argv[2], sys.argv[3], sys.argv[4].split(",")
d = os.path.join(V, "seeded", "benign", name)
os.makedirs(d, exist_ok=True)
shutil.copy(patch, os.path.join(d, "patch.diff"))
if os.path.exists(notes): shutil.copy(notes, os.path.join(d, "notes.md"))
sc = "/var/tmp/benignrepo-" + name
shutil.rmtree(sc, ignore_errors=True)
sh("rsync -a --exclude /target --exclude .git /repo/ %s/" % sc, "/")
rc, out = sh("patch -p1 -s < %s" % os.path.join(d, "patch.diff"), sc)
assert rc == 0, out
runs = []
for prop in props:
    env = {"VERIF_REPO": sc, "VERIF_TAG": "-" + name, "VERIF_CACHE": "/var/tmp/conjure-verif-cache-benign-" + name,
           "VERIF_EVIDENCE_DIR": os.path.join(V, "logs", "benign-evidence-" + name)}
    t0 = time.time()
    rc, out = sh("./check %s --tier quick" % prop, V, env=env)
    open(os.path.join(V, "logs", "benign-%s-%s.log" % (name, prop)), "w").write(out)
    runs.append({"property": prop, "exit": rc, "wall_s": round(time.time() - t0, 1),
                 "failed_obligations": re.findall(r"^FAILED OBLIGATION (\S+)", out, re.M),
                 "undecided": [u[:200] for u in re.findall(r"^  - (.*)$", out, re.M)[:6]]})
shutil.rmtree(sc, ignore_errors=True)
shutil.rmtree("/var/tmp/conjure-verif-cache-benign-" + name, ignore_errors=True)
meta = {"id": name, "kind": "behaviour-preserving refactoring (independent sub-agent)", "properties": props, "check_runs": runs,
        "false_alarm": any(r["exit"] == 1 for r in runs)}
json.dump(meta, open(os.path.join(d, "meta.json"), "w"), indent=1)
print(name, [(r["property"], r["exit"], r["failed_obligations"][:3], r["undecided"][:2]) for r in runs])
