#!/usr/bin/env python3
"""Regenerates /verif/MANIFEST.json from the per-property claim table below."""
import json, os
V = os.path.dirname(os.path.dirname(os.path.abspath(__file__)))

CLAIMS = {
 "C15": dict(
  technique="Verus contracts on SafeLong::{min_value,max_value,new,deref} (extracted verbatim) + Kani function contract on SafeLong::new (proof_for_contract / stub_verified) and loop-free full-domain Kani harnesses on every conversion and Deserialize route",
  text="Deductive proof, for all inputs, that every construction route of SafeLong (new, TryFrom<u64/i64/u128/i128/usize/isize>, From<narrow>, Deserialize on every serde integer event) yields a value inside [-(2^53-1), 2^53-1] and keeps the value, and accepts every in-range integer; text routes (from_str / PLAIN) are proved to construct only through `new` and are otherwise bounded (listed, not counted).",
  note="Trusted: rustc, Verus+z3, Kani+CBMC; i64::from_str; parametricity of the generic Deserialize impl over deserializers; struct re-declaration in the Verus unit (shape scan).",
  design="§4 C15"),
 "C14": dict(
  technique="Verus contracts + loop invariants on the verbatim DoubleOps impls for Option<T> and Vec<T> (cmp, eq, hash over a ghost hasher model) against lexicographic spec functions, generic lifting lemmas (T lawful => Option<T>, Vec<T> lawful, by induction); Kani loop-free harnesses over all f64 triples for DoubleOps-for-f64, Option<f64>, DoubleKey incl. a recording Hasher",
  text="Proof for the runtime core: order/equality/hash laws for f64 (all bit patterns incl. NaN payloads, +-0), DoubleKey, Option<T> and Vec<T> of any length and nesting (cmp, eq and hash of Vec<T> verified verbatim with loop invariants; alternative lawful orders / hash layouts are recognised, not flagged). Not decided: BTreeMap values, which fields the generator decorates and what educe expands to.",
  note="Trusted: rustc, Verus+z3, Kani+CBMC, educe expansion, generator attribute selection, vstd specs for slices/ranges; the f64 instance inside the Verus unit is external_body and discharged cross-engine by Kani.",
  design="§4 C14"),
 "C13": dict(
  technique="Kani loop-free full-domain harnesses on the real any/{ser,de}.rs: scalar round-trip matrix for every integer width/floats/char/unit/Option, visitor-event identity against a recording serializer, coercions, per-step frame obligations of the Seq/Map serializers and deserializers",
  text="Proof for every scalar type (all values, floats bitwise) that Any::new(v)?.deserialize_into()? == v, that `any` is the identity on serde scalar events and emits the same event as the original, the float-string coercions, and that each container step hands elements through unchanged and in order. Whole-container round trips, BTreeMap behaviour, enum views and JSON text are not decided. Found and fixed: i128/u128 could not be read back.",
  note="Trusted: rustc, Kani+CBMC, serde_json, base64, std BTreeMap; structural induction from per-step frames to whole containers is argued, not mechanised; core::fmt::write stubbed on error paths.",
  design="§4 C13"),
 "C16": dict(
  technique="Kani: complete loop-free harness over all 256 bytes for the bearer-token character table; bounded harnesses (strings <= 3-5 bytes) comparing is_valid / from_str / new / from_plain / Deserialize / Serialize with a recogniser written from the regex",
  text="Bearer-token half only. Proof that the character table is exactly [A-Za-z0-9-._~+/]; every entry path agrees with ^[A-Za-z0-9\\-._~+/]+=*$ and renders back identically for all strings up to the stated bound (bounded, not counted as proved). Resource identifiers are NOT decided (regex crate).",
  note="Trusted: rustc, Kani+CBMC; std trim_end_matches/Iterator::all beyond the bound; the resource-identifier half of the statement is outside the reach of both verifiers and is not covered.",
  design="§4 C16"),
 "C01": dict(
  technique="Kani loop-free harnesses over symbolic payloads against instrumented inner (de)serializers with a ghost event log: one frame obligation per method of ser::Override / de::Override (Serializer, Serialize*, Deserializer, Visitor, SeqAccess, MapAccess, EnumAccess, VariantAccess, DeserializeSeed), the Conjure JSON value/key hooks for all f32/f64, a hook-level round trip for all f64, DelegatingVisitor forwarding",
  text="Proof of every first-party wrapper obligation: each entry point hands nested values to the inner implementation re-wrapped with the behaviour (keys with KeyBehavior, values not), forwards everything else unchanged, and the JSON behaviours spell NaN/Infinity/-Infinity, boolean/double/binary keys as the statement says and read them back (for all doubles, bitwise). By parametricity of the generic wrappers this holds for every nesting path. serde_json / serde_smile / base64 / float text are trusted; the lift to whole values is the parametricity argument, not a mechanised induction.",
  note="Trusted: rustc, Kani+CBMC, serde data model + derive, serde_json, serde_smile, base64, f64 Display/FromStr. Not decided: byte-level JSON/Smile, formatters, input sources, the concrete entry types generated by impl_serialize_body!/impl_deserialize_body!.",
  design="§4 C01"),
 "C05": dict(
  technique="Kani loop-free harnesses: the real UnknownFieldsBehavior::deserialize_struct driven by scripted objects into a derive-shaped visitor (symbolic field values and string forms), frame obligations for every method of DelegatingDeserializer / WrappingDeserializer / ValueDeserializer / KeyVisitor, plus the de::Override re-wrapping obligations that carry the behaviour below every container",
  text="Proof of the interception and re-wrapping obligations: an undeclared field (first or last, any string visit form, any value) is rejected by the server behaviour with unknown_field(<exactly that name>, declared fields); declared fields keep their values; the default (client) behaviour returns exactly the value of the document without the extra field; every nested access is re-wrapped with the same behaviour (keys with its KeyBehavior), so the behaviour holds at every depth by parametricity. The serde-derive shape of generated code and the parsers are assumed; entry wiring of the four deserializers is a syntactic scan.",
  note="Trusted: rustc, Kani+CBMC, serde derive contract (deserialize_struct / deserialize_identifier / IgnoredAny), serde_json / serde_smile parsers.",
  design="§4 C05"),
 "C07": dict(
  technique="Verus contracts on the verbatim UriBuilder::{push_literal,push_path_parameter_raw,push_query_parameter_raw,build} over an abstract byte-sequence view (assumed specs for BytesMut/Uri) + inductive counting lemmas; Kani complete harnesses for the percent-encode set over all ASCII, equality with the duplicated set in conjure-macros, per-call byte-level contracts through the real BytesMut",
  text="Proof that every push appends exactly old ++ separator ++ [key ++ '='] ++ escape(value) for all pre-states and values, that the escape of any ASCII character is itself iff unreserved and %HH otherwise (so no value can introduce '/', '?', '#', '&', '=', '+', '%'), that the two copies of the encode set agree, and counting lemmas turning this into 'exactly one more segment/pair'. build() panicking above 65534 bytes is a recorded known finding. Server-side decoding beyond one character and the ToPlain wrappers are not decided.",
  note="Trusted: rustc, Verus+z3, Kani+CBMC; assumed specs of bytes::BytesMut and http::Uri::from_maybe_shared; percent-encoding's per-character concatenation for longer values; form_urlencoded.",
  design="§4 C07"),
}

NA = {
 "C02": "quantifier over all Conjure IR programs: the deciding code is the generator (quote!/TokenStream over HashMap/String/RefCell) plus rustc/serde-derive on its output; outside Verus's subset and Kani's capacity (DESIGN §4 C02)",
 "C03": "quantifier over programs: generation + compilation of emitted code; no per-function contract expresses 'output compiles' (DESIGN §4 C03)",
 "C04": "end-to-end client/server path runs through proc-macro-expanded code over http::HeaderMap/Bytes/conjure_error::Error in blocking and async copies; measured infeasible in Kani, unsupported by Verus (DESIGN §4 C04)",
 "C06": "body framing runs through generic serde + dyn Encoding + Bytes + async; only check_limit is within reach and does not decide the property (DESIGN §4 C06)",
 "C08": "memoised recursion over HashMap/RefCell/closures in conjure-codegen; Verus rejects it, Kani gave no answer in 15 min even with HashMap replaced (DESIGN §4 C08)",
 "C09": "information-flow property over proc-macro expansion and conjure_error::Error (HashMap, Any, backtrace); neither verifier tracks taint or loads proc-macro crates (DESIGN §4 C09)",
 "C10": "classification of unknown variants lives in per-definition generated code (quantifier over programs) (DESIGN §4 C10)",
 "C11": "negotiation is an inline sort/filter_map/max_by chain over mediatype values parsed from a HeaderMap; Verus rejects the chain, Kani does not finish even for concrete headers (DESIGN §4 C11)",
 "C12": "inverse law of std/chrono/uuid/base64 formatters and parsers; fmt::Formatter machinery is out of CBMC's reach (10 min, no answer) and has no Verus spec (DESIGN §4 C12)",
 "C17": "encode()/Error::service_inner are staged-builder + BTreeMap + two HashMaps + Uuid::new_v4; Kani gave no answer in 15 min; status_code table alone does not decide the property (DESIGN §4 C17)",
 "C18": "same obstacles as C06 (generic serde, Bytes, dyn Encoding) plus async twins (DESIGN §4 C18)",
 "C19": "the naming decision is made inside the conjure-macros proc macro, which neither verifier can load; error construction is HashMap-based (DESIGN §4 C19)",
 "C20": "relation between two process executions (hash seeds, temp paths); no single-call contract states it (DESIGN §4 C20)",
}

def main():
    checks = []
    for pid in sorted(CLAIMS):
        c = CLAIMS[pid]
        checks.append({
            "property_id": pid,
            "quick_cmd": "./check %s --tier quick" % pid,
            "thorough_cmd": "./check %s --tier thorough" % pid,
            "evidence_file": "/verif/evidence/%s.json" % pid,
            "replay_cmd_template": "./check %s --replay {path}" % pid,
            "engine": "verus+kani",
            "level_claimed": {"category": "proof", "text": c["text"], "design_ref": c["design"]},
            "level_note": c["note"],
            "technique": c["technique"],
        })
    na = [{"property_id": k, "reason": v} for k, v in sorted(NA.items()) if k not in CLAIMS]
    m = {
        "version": 1,
        "setup_cmd": "./setup.sh",
        "hooks": {"guard": "none (no hooks: /repo is only read; contracts are attached to scratch copies on every run; harness modules are #[cfg(kani)])",
                  "enable": "n/a - checks rsync /repo's working tree to a scratch directory, append #[cfg(kani)] harness modules and kani::ensures attributes there, and extract functions byte-for-byte into Verus units",
                  "baseline_off_cmd": "cd /repo && cargo test --workspace --no-fail-fast --offline --lib --bins --tests",
                  "source_commits": [], "add_only": True},
        "engines": [
            {"name": "verus", "path": "/usr/local/bin/verus", "serves_properties": sorted(CLAIMS), "kind_free_text": "SMT-based deductive verifier; functions extracted verbatim by vx on every run"},
            {"name": "kani", "path": "/root/.cargo/bin/cargo-kani", "serves_properties": sorted(CLAIMS), "kind_free_text": "CBMC-based; function contracts + loop-free full-domain harnesses on the real crates"},
            {"name": "vx", "path": "/verif/vx", "serves_properties": sorted(CLAIMS), "kind_free_text": "syn-based item locator/extractor built by setup_cmd"},
        ],
        "checks": checks,
        "not_applicable": na,
        "notes": "Exit 2 from a check means 'undecided' (lost anchor, tool limit, timeout) and is never accompanied by a VIOLATION line. Bounded Kani harnesses are listed in the evidence under bounded_not_counted_as_proved.",
    }
    json.dump(m, open(os.path.join(V, "MANIFEST.json"), "w"), indent=1)

if __name__ == "__main__":
    main()
