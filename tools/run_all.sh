#!/bin/sh
# Runs every registered quick check on the current tree and validates MANIFEST + evidence against the schemas.
cd "$(dirname "$0")/.."
rc=0
for id in $(python3 -c "import json;print(' '.join(c['property_id'] for c in json.load(open('MANIFEST.json'))['checks']))"); do
  echo "== $id"; ./check $id --tier ${1:-quick} > logs/$id.run.log 2>&1; r=$?; tail -2 logs/$id.run.log; [ $r -ne 0 ] && rc=1
done
python3-vt - <<'PY'
import json,jsonschema,glob
jsonschema.validate(json.load(open('/verif/MANIFEST.json')),json.load(open('/root/.vp/MANIFEST.schema.json')))
for f in sorted(glob.glob('/verif/evidence/*.json')):
    d=json.load(open(f)); jsonschema.validate(d,json.load(open('/root/.vp/EVIDENCE.schema.json')))
    c=d['coverage']; print(f, c['obligations'], c['discharged'], 'violations', d.get('violations'))
    assert c['obligations']==c['discharged'], f
PY
exit $rc
