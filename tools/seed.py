#!/usr/bin/env python3
"""Seeded-change bookkeeping.
  seed.py confirm <src_dir> <worktree> <seed_id> <property>   confirm the agent's claims in its scratch worktree and store the
                                                             change under /verif/seeded/<seed_id>/ (patch.diff, demo.rs, meta.json)
  seed.py run <seed_id> [--tier quick]                        apply the stored patch to /repo, run the property's check, undo it
"""
import json, os, re, subprocess, sys, time, shutil
V = os.path.dirname(os.path.dirname(os.path.abspath(__file__)))
BASE = "cargo test --workspace --no-fail-fast --offline --lib --bins --tests"

def sh(cmd, cwd, env=None, timeout=3600):
    e = dict(os.environ); e["CARGO_NET_OFFLINE"] = "true"
    if env: e.update(env)
    p = subprocess.run(cmd, shell=True, cwd=cwd, env=e, stdout=subprocess.PIPE, stderr=subprocess.STDOUT, text=True, timeout=timeout)
    return p.returncode, p.stdout

def counts(out):
    return sum(int(m) for m in re.findall(r"test result: \w+\. (\d+) passed", out)), sum(int(m) for m in re.findall(r"test result: \w+\. \d+ passed; (\d+) failed", out))

def confirm(src, wt, sid, prop):
    env = {"CARGO_TARGET_DIR": os.path.join(wt, "target")}
    demo = open(os.path.join(src, "demo.rs")).read()
    m = re.search(r"[Pp]lace (?:this file )?at:?\s+(\S+)", demo)
    head = "\n".join(l[2:].strip() for l in demo.split("\n")[:40] if l.startswith("//"))
    head = head.replace("\\\n", " ")
    r = re.search(r"(cargo test[^\n]*)", head)
    assert m and r, "demo.rs lacks placement/run header"
    dest, cmd = m.group(1).strip(), r.group(1).strip().rstrip("`.")
    if "--offline" not in cmd:
        cmd += " --offline"
    log = {}
    sh("git checkout -- . && git clean -fdq -e target", wt)
    rc, out = sh("git apply --check %s && git apply %s" % (os.path.join(src, "patch.diff"), os.path.join(src, "patch.diff")), wt)
    assert rc == 0, out
    rc, out = sh(BASE, wt, env)
    p, f = counts(out)
    log["suite_with_change"] = {"rc": rc, "passed": p, "failed": f}
    os.makedirs(os.path.dirname(os.path.join(wt, dest)), exist_ok=True)
    open(os.path.join(wt, dest), "w").write(demo)
    rc1, out1 = sh(cmd, wt, env)
    log["demo_with_change"] = {"rc": rc1, "tail": out1[-1500:]}
    sh("git checkout -- .", wt)   # undo the source change, keep the demo
    rc2, out2 = sh(cmd, wt, env)
    log["demo_without_change"] = {"rc": rc2, "tail": out2[-600:]}
    sh("git checkout -- . && git clean -fdq -e target", wt)
    ok = log["suite_with_change"]["rc"] == 0 and log["suite_with_change"]["passed"] >= 112 and rc1 != 0 and rc2 == 0
    d = os.path.join(V, "seeded", sid)
    os.makedirs(d, exist_ok=True)
    shutil.copy(os.path.join(src, "patch.diff"), os.path.join(d, "patch.diff"))
    shutil.copy(os.path.join(src, "demo.rs"), os.path.join(d, "demo.rs"))
    if os.path.exists(os.path.join(src, "notes.md")):
        shutil.copy(os.path.join(src, "notes.md"), os.path.join(d, "notes.md"))
    meta = {"id": sid, "property": prop, "origin": "independent sub-agent given only the property text and a scratch worktree",
            "demo_path": dest, "demo_cmd": cmd, "confirmed": ok,
            "what_i_ran": ["git apply patch.diff (scratch worktree)", BASE, cmd + "  (with the change: must fail)", "git checkout -- . ; " + cmd + "  (without the change: must pass)"],
            "confirmation": log}
    json.dump(meta, open(os.path.join(d, "meta.json"), "w"), indent=1)
    print("CONFIRMED" if ok else "NOT CONFIRMED", sid, json.dumps({k: (v if k == "suite_with_change" else v["rc"]) for k, v in log.items()}))
    return ok

def run_scratch(sid, tier="quick"):
    """same as run, but on a scratch copy of /repo (VERIF_REPO), so that several seeds can be evaluated concurrently"""
    d = os.path.join(V, "seeded", sid)
    meta = json.load(open(os.path.join(d, "meta.json")))
    prop = meta["property"]
    sc = "/var/tmp/seedrepo-" + sid
    shutil.rmtree(sc, ignore_errors=True)
    sh("rsync -a --exclude /target --exclude .git /repo/ %s/" % sc, "/")
    rc, out = sh("patch -p1 -s < %s" % os.path.join(d, "patch.diff"), sc)
    assert rc == 0, out
    t0 = time.time()
    env = {"VERIF_REPO": sc, "VERIF_TAG": "-" + sid, "VERIF_CACHE": "/var/tmp/conjure-verif-cache-seed-" + sid,
           "VERIF_EVIDENCE_DIR": os.path.join(V, "logs", "seed-evidence-" + sid)}
    try:
        rc, out = sh("./check %s --tier %s" % (prop, tier), V, env=env, timeout=7200)
    finally:
        shutil.rmtree(sc, ignore_errors=True)
        shutil.rmtree(env["VERIF_CACHE"], ignore_errors=True)
    record(sid, d, meta, rc, out, tier, t0, "scratch copy of /repo via VERIF_REPO")

def record(sid, d, meta, rc, out, tier, t0, how):
    viol = re.findall(r"^VIOLATION .*$", out, re.M)
    failed = re.findall(r"^FAILED OBLIGATION (\S+)", out, re.M)
    res = {"tier": tier, "how": how, "exit": rc, "wall_s": round(time.time() - t0, 1), "violation_lines": [re.sub(r"replay=\S+", "replay=<path>", v) for v in viol[:12]],
           "failed_obligations": failed, "undecided": re.findall(r"^  - (.*)$", out, re.M)[:12]}
    meta.setdefault("check_runs", []).append(res)
    meta["detected"] = rc == 1 and bool(viol)
    json.dump(meta, open(os.path.join(d, "meta.json"), "w"), indent=1)
    os.makedirs(os.path.join(V, "logs"), exist_ok=True)
    open(os.path.join(V, "logs", "seed-%s.log" % sid), "w").write(out)
    print(sid, "exit", rc, "DETECTED" if meta["detected"] else "NOT DETECTED", failed[:8], [u[:160] for u in res["undecided"][:3]])

def run(sid, tier="quick"):
    d = os.path.join(V, "seeded", sid)
    meta = json.load(open(os.path.join(d, "meta.json")))
    prop = meta["property"]
    rc, out = sh("git status --porcelain", "/repo")
    assert out.strip() == "", "/repo is not clean: " + out
    rc, out = sh("git apply %s" % os.path.join(d, "patch.diff"), "/repo")
    assert rc == 0, out
    t0 = time.time()
    try:
        rc, out = sh("./check %s --tier %s" % (prop, tier), V, timeout=7200)
    finally:
        sh("git checkout -- .", "/repo")
    record(sid, d, meta, rc, out, tier, t0, "git -C /repo apply; ./check; git -C /repo checkout -- .")

if __name__ == "__main__":
    if sys.argv[1] == "confirm":
        sys.exit(0 if confirm(*sys.argv[2:6]) else 1)
    elif sys.argv[1] == "run-scratch":
        run_scratch(sys.argv[2], sys.argv[4] if len(sys.argv) > 4 else "quick")
    else:
        run(sys.argv[2], sys.argv[4] if len(sys.argv) > 4 else "quick")
