#!/usr/bin/env python3
"""debug helper: prepare a persistent scratch workspace for one Kani unit of a property (prints its path)"""
import os, sys, shutil
sys.path.insert(0, os.path.join(os.path.dirname(os.path.dirname(os.path.abspath(__file__))), "lib"))
import vf, runner
prop, unit = sys.argv[1], sys.argv[2]
run = runner.Run(prop, "quick", 0)
u = [x for x in run.reg.KANI_UNITS if x["name"] == unit][0]
d = "/var/tmp/dbg-%s-%s" % (prop, unit)
shutil.rmtree(d, ignore_errors=True)
os.makedirs(d)
vf.sh(["rsync", "-a", "--exclude", "/target", "--exclude", ".git", vf.REPO + "/", d + "/ws/"])
os.makedirs(d + "/ws/.cargo", exist_ok=True)
open(d + "/ws/.cargo/config.toml", "a").write("\n[net]\noffline = true\n")
class SC: pass
sc = SC(); sc.ws = d + "/ws"
run._prepare_ws(sc, u)
print(sc.ws, u["crate"])
