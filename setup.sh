#!/bin/sh
# Offline setup: build the vx extractor from vendored crates. Kani dependency caches are (re)built on demand by the checks.
set -e
cd "$(dirname "$0")"
export CARGO_NET_OFFLINE=true
( cd vx && cargo build --release --offline )
mkdir -p evidence logs
echo "setup ok"
